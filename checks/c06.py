"""C06 Frame enter and exit actions are properly bracketed and ordered.
Engine A: (i) Framer.ExEn exhaustively over all forests and (active, far) pairs vs a reference written from the
statement; (ii) forest program families x BFS over env-input histories on the real Builder/Skedder with the
bracketing monitor and the reference interpreter's predicted event order."""
META = dict(
    engine="flo", level="model_checking",
    technique="explicit-state BFS over env-input histories of enumerated FloScript programs on the real Builder/Skedder; bracketing invariant in every state, event order vs reference interpreter; ExEn exhaustively",
    text="(i) The real Framer.ExEn is called on really-built frames for every labelled forest on up to 4 (quick) / 5 (thorough) frames and every "
         "(active frame, target) pair and compared with the statement's rule. (ii) Every forest program (as C05: transitions to self, ancestors, "
         "descendants, other subtrees, next; conditional auxiliaries; stop at every reachable state), plus cloned moot framers with nested frames (named / insular / reared), framers / auxiliaries / slaves with nested outlines that are stopped and activated again on the same frames, is explored through every reachable "
         "(state x env input); per frame enter/exit alternate, open frames at each tick boundary equal the FULL outlines of running framers and "
         "active auxiliaries (suspended frames included), exit runs are bottom-up and enter runs top-down, nothing stays entered after the run, and "
         "the per-tick sequence of enter/exit/rexit/renter events equals the reference interpreter's.",
    note="Transit actions are not observable through recorders (ioflo runs them with no script-visible hook); their position before the exits is observed through marker effects: marker-guarded transitions whose exit / re-exit / enter actions write the watched share (also in C20). Reference interpreter: mc/flo/ref.py.",
)
from mc import core
from mc.flo import runner


def family():
    from mc.flo import families as F
    yield from F.fam_restart()
    for label, prog, meta in F.fam_plain_aux(quick=True):
        if "/handover/" in label and (core.TIER != "quick" or "/repeat1/" in label):
            yield label, prog, meta          # shared original aux handed over between frames: never entered twice
    # plain auxiliaries that complete (done) BEFORE their main frame is exited: their frames stay entered until then
    for label, prog, meta in F.fam_plain_aux(quick=True):
        kind, var = label.split("/")[1:3]
        if kind in ("repeat1", "now", "donemid") and var == "bits" and \
                (core.TIER != "quick" or sum(len(s) for s in meta.get("slots", ()) if s) == 1):
            yield label, prog, meta
    # cloned framers (named / insular / reared): a clone's frames run their rexit / renter / exit actions like the original's
    for label, prog, meta in F.fam_clone_shapes():
        if core.TIER != "quick" or "/under-None/first-None/next-None/" in label:
            yield label, prog, meta
    # marker-guarded transitions whose exit / re-exit / enter actions write the watched share: the transit actions
    # (mark refresh) come first, so that write is seen by the next evaluation of the mark
    for label, prog, meta in F.fam_markers_exit_writes():
        if core.TIER != "quick" or "/Atop-None" in label or "/ANone-mk" in label:
            yield label, prog, meta
    if core.TIER == "quick":
        yield from F.fam_forest(2, pairs=True)
        yield from F.fam_forest(3, pairs=False, aux_kinds=("repeat1", "never"))
    else:
        yield from F.fam_forest(2, pairs=True)
        yield from F.fam_forest(3, pairs=True)
        yield from F.fam_forest(4, pairs=False, aux_kinds=("repeat1",))


ORDER_CTX = ("enter", "exit", "rexit", "renter")


def on_prog(p, idx, label, prog, meta):
    from mc.flo import explore, monitors, families as F, lang, conform

    def on_run(prog, envf, envb, rr, text, br):
        p.evaluations += 1
        if rr is None:
            runner.violation(p, idx, "build-failed|" + br.kind, label, "family program does not build: %r" % (br.exc,), dict(text=text))
            return True
        if rr.outcome != "returned":
            runner.violation(p, idx, "run-" + rr.outcome.split()[0], label, "run did not return: %s %r" % (rr.outcome, rr.exc),
                             dict(text=text, env=envf))
            return True
        probs = monitors.mon_bracket(prog, rr)
        if probs:
            g, d = probs[0]
            runner.violation(p, idx, g, "%s env=%s" % (label, sorted(envf.items())), d, dict(text=text, env=envf, problems=probs[:5]))
            p.outcome("viol:" + g)
            return True
        # event order vs the reference
        ro = conform.run_ref(prog, len(rr.ticks), envf, envb)
        for k in range(min(len(rr.events), len(ro.events))):
            a = [e for e in rr.events[k] if e[2] in ORDER_CTX]
            b = [e for e in ro.events[k] if e[2] in ORDER_CTX]
            if a != b:
                runner.violation(p, idx, "event-order-differs-from-reference", "%s env=%s" % (label, sorted(envf.items())),
                                 "tick %d enter/exit/rexit/renter events %r, reference predicts %r" % (k, a, b),
                                 dict(text=text, env=envf, tick=k, real=a, ref=b))
                return True
        p.outcome("events:%d" % min(9, sum(len(e) for e in rr.events) // 10))
        return False

    st = explore.explore(prog, meta.get("alphabet") or F.ENV_ALPHABET, depth=6 if core.TIER == "quick" else 8, on_run=on_run,
                         **(dict(watch=meta["watch"]) if meta.get("watch") else {}))
    p.states += st["states"]
    p.transitions += st["transitions"]
    p.traces += st["runs"]
    p.capped = p.capped or st["capped"]
    p.nontrivial(label)
    if idx % 499 == 0:
        p.sample(dict(label=label, script=lang.emit(prog), bfs=st))


# ---------------------------------------------------------------- (i) ExEn exhaustively

def spec_exen(nears, far_outline, far):
    """Statement: exit the current frames from the first point where the current outline and the
    target's outline differ, or where the target itself appears; shared ancestors above that point are
    re-exited / re-entered; the rest of the target's outline is entered."""
    i = 0
    while i < len(nears) and i < len(far_outline):
        if nears[i] == far or nears[i] != far_outline[i]:
            break
        i += 1
    if i >= min(len(nears), len(far_outline)):
        return [], [], list(nears)
    return list(nears[i:]), list(far_outline[i:]), list(nears[:i])


def exen_work(arg):
    shard, nshards, n = arg
    core.use_repo()
    from mc.flo import families as F, lang, real
    from ioflo.base import framing
    p = core.Part()
    for idx, (names, parents) in enumerate(F.forests(n)):
        if idx % nshards != shard:
            continue
        prog = F.forest_prog(names, parents, [], ctxs=())
        fm = prog["framers"][0]
        br = real.build_text(lang.emit(prog))
        if not br.ok:
            p.violation("exen-build-failed", str(parents), "forest does not build: %r" % (br.exc,))
            continue
        framer = br.houses[0].framers[0]
        for a in names:
            A = framer.frameNames[a]
            nears = list(A.outline)
            if [f.name for f in nears] != lang.outline(fm, a):
                p.violation("outline-differs", "%s %s" % (parents, a), "Frame.outline %r expected %r" % ([f.name for f in nears], lang.outline(fm, a)))
                continue
            for cut in (None,) + tuple(range(1, len(A.head))):
                # cut: actives truncated to a head (conditional aux running at that level)
                cur = nears if cut is None else list(A.head[:cut])
                for b in names:
                    Bf = framer.frameNames[b]
                    ex, en, rx = framing.Framer.ExEn(list(cur), Bf)
                    got = ([f.name for f in ex], [f.name for f in en], [f.name for f in rx])
                    want = spec_exen([f.name for f in cur], lang.outline(fm, b), b)
                    p.evaluations += 1
                    p.transitions += 1
                    p.outcome("ex%d-en%d" % (len(got[0]), len(got[1])))
                    if tuple(map(list, got)) != tuple(want):
                        p.violation("ExEn-differs", "forest %s actives %s far %s" % (parents, [f.name for f in cur], b),
                                    "ExEn -> %r, statement rule -> %r" % (got, want), dict(parents=parents, actives=[f.name for f in cur], far=b))
        p.states += 1
        p.nontrivial(("exen", n, parents))
    return p


def run():
    ck = core.Check("C06", "model_checking", META["technique"])
    n = core.NPROC
    for size in ((2, 3, 4) if core.TIER == "quick" else (2, 3, 4, 5)):
        ck.merge(core.pmap(exen_work, [(i, n, size) for i in range(n)]))
    runner.run_family(ck, family, on_prog)
    ck.assumptions = ["every frame carries enter/exit/rexit/renter/benter/recur/precur recorders, so bracketing is observed on all frames",
                      "transit actions are not script-observable; reference interpreter mc/flo/ref.py written from DESIGN appendix A"]
    return ck.finish(rule="(i) forests x (active, truncated head) x far for ExEn; (ii) program = forest + transitions + optional under override + "
                          "optional conditional aux; state = canonical framer snapshot; transition = one tick with one of 4 env inputs (+ stop tick)",
                     exhaustive=True)


if __name__ == "__main__":
    core.main(run)
