"""C39 odict / lodict / modict / oset behave like their models.  Engine B (seq): explicit-state BFS over
operation sequences applied to fresh real containers (replayed from the history) and to plain-Python
reference models, compared after every step."""
META = dict(
    engine="seq", level="model_checking",
    technique="explicit-state BFS over operation histories on the real containers, replay-from-history, canonical-state dedupe, "
              "step-by-step comparison with plain-Python reference models",
    text="For each of odict, lodict, modict and oset every operation history over a small key universe ({a,b,A} x {1,2}; oset {a,b,c}) is explored "
         "breadth first: a transition replays the history on a fresh real object, applies one more operation (every public mutator, every constructor "
         "form, copy/sift/pickle/deepcopy replacement, reorder, create, insert, in-place set algebra) and compares return value or exception type and "
         "the resulting contents with a reference model (key list + dict; lower-cased keys; key -> list of values; list-backed set); then ~60 read-only "
         "observations (lookups for every key spelling, iteration in every flavour, reversed, copy independence, sift, pickle protocols 0-5, set algebra "
         "and comparisons) are compared too.  States are deduplicated on the observable dump of the real object; odict, lodict and oset reach the "
         "fixpoint, modict (unbounded value lists) is explored to depth 4 (quick) / 6 (thorough).",
    note="Order of the result of oset & and ^ is not compared (the statement fixes none); modict.reorder may either replace or append (both accepted); "
         "return values of mutators that document none are not compared; repr text is not compared.",
)
import collections
import copy
import pickle

from mc import core

ANY = ("<any>",)          # the model has no opinion on the returned value


def freeze(v):
    if isinstance(v, (list, tuple)):
        return tuple(freeze(x) for x in v)
    if isinstance(v, dict):
        return tuple(sorted((freeze(k), freeze(x)) for k, x in v.items()))
    return v


_CODE = {}


def run_text(text, ns):
    """Run one operation / observation given as python text on the name `d`.  -> ('ok', value) | ('exc', name)"""
    c = _CODE.get(text)
    if c is None:
        try:
            c = (compile(text, "<op>", "eval"), True)
        except SyntaxError:
            c = (compile(text, "<op>", "exec"), False)
        _CODE[text] = c
    try:
        if c[1]:
            return ("ok", eval(c[0], ns))
        exec(c[0], ns)
        return ("ok", ns.pop("_", None))      # a multi-statement operation reports through the name `_`
    except Exception as ex:
        return ("exc", type(ex).__name__)


def matches(got, exp):
    if exp is None:                           # the model has no opinion on result or exception
        return True
    if exp[0] == "exc":
        return got[0] == "exc" and got[1] == exp[1]
    if got[0] != "ok":
        return False
    return exp[1] is ANY or freeze(got[1]) == freeze(exp[1])


def show(r):
    if r is None:
        return "anything"
    if r[0] == "exc":
        return "raises " + r[1]
    return "any" if r[1] is ANY else repr(r[1])


def kindof(got, exp):
    """coarse divergence kind for the violation group"""
    if got[0] == "exc":
        return "raises %s" % got[1]
    if exp[0] == "exc":
        return "no %s" % exp[1]
    return "wrong result"


OK = ("ok", ANY)
KEYERR = ("exc", "KeyError")


# ------------------------------------------------------------------ dict family

def ddump(x):
    """observable dump of an odict-family object: class, key order, raw stored values by key"""
    ks = tuple(x._keys)
    raw = tuple(sorted((k, freeze(v)) for k, v in dict.items(x)))
    return (type(x).__name__, ks, raw)


def copy_independent(d):
    """mutating a copy must not touch the original"""
    before = ddump(d)
    c = d.copy()
    c["zz"] = 0
    for k in list(c.keys()):
        c["zz"] = 1
        if k != "zz":
            c[k] = 9
    c.clear()
    return ddump(d) == before


class DictSpec:
    """odict / lodict (values are scalars) and modict (values are lists; st holds tuples)."""

    def __init__(self, kind, mods):
        self.kind = kind
        self.multi = kind == "modict"
        self.cls = getattr(mods["odicting"], kind)
        self.K = ["a", "b"] if self.multi else ["a", "b", "A"]
        self.ns0 = dict(odict=mods["odicting"].odict, lodict=mods["odicting"].lodict,
                        modict=mods["odicting"].modict, cls=self.cls, pickle=pickle, copy=copy,
                        dump=ddump, copy_independent=copy_independent)
        self.init_text = "d = %s()" % kind
        self.st0 = ()
        self.ops = self._ops()

    # ---- model helpers; st = tuple of (key, value)  (modict: value = tuple of values, oldest first)
    def n(self, k):
        return k.lower() if self.kind == "lodict" else k

    @staticmethod
    def has(st, k):
        return any(x[0] == k for x in st)

    @staticmethod
    def val(st, k):
        for x in st:
            if x[0] == k:
                return x[1]
        raise KeyError(k)

    @staticmethod
    def rm(st, k):
        return tuple(x for x in st if x[0] != k)

    def put(self, st, k, v):
        """x[k] = v : odict replaces in place / appends key; modict appends the value"""
        if self.has(st, k):
            if self.multi:
                return tuple((a, b + (v,)) if a == k else (a, b) for a, b in st)
            return tuple((a, v) if a == k else (a, b) for a, b in st)
        return st + ((k, (v,) if self.multi else v),)

    def newest(self, v):
        return v[-1] if self.multi else v

    def expdump(self, st, kind=None):
        return (kind or self.kind, tuple(k for k, _ in st), tuple(sorted((k, freeze(v)) for k, v in st)))

    def canon(self, d):
        try:
            return ddump(d) + (tuple(dict.keys(d)),)
        except Exception as ex:
            return ("broken", type(ex).__name__)

    def dump(self, d):
        return ddump(d)

    # ---- bulk arguments
    def bulks(self):
        if self.multi:
            return [[("a", 2)], [("b", 1), ("a", 2)], [("a", 1), ("a", 2)]]
        return [[("a", 2)], [("A", 1)], [("b", 1), ("a", 2)], [("A", 2), ("a", 1)]]

    def forms(self, bulk, with_multi=True):
        """(argument text, list of (k, v) the argument iterates over)"""
        out = [("%r" % (bulk,), list(bulk))]
        asdict = list(dict(bulk).items())
        out.append(("{%s}" % ", ".join("%r: %r" % kv for kv in asdict), asdict))
        if len(asdict) == len(bulk):
            out.append((", ".join("%s=%r" % kv for kv in bulk), list(bulk)))          # keywords
        out.append(("odict(%r)" % (bulk,), asdict))
        if self.kind == "lodict":
            lowered = []
            for k, v in bulk:
                k = k.lower()
                if any(x[0] == k for x in lowered):
                    lowered = [(a, v) if a == k else (a, b) for a, b in lowered]
                else:
                    lowered.append((k, v))
            out.append(("lodict(%r)" % (bulk,), lowered))
        if self.multi and with_multi:
            out.append(("modict(%r)" % (bulk,), list(bulk)))                          # every value, in order
        return out

    # ---- operations
    def _ops(self):
        K, n, multi = self.K, self.n, self.multi
        ops = []

        def op(text, fn):
            ops.append((text, fn))

        def m_set(k, v):
            return lambda st: [(self.put(st, n(k), v), OK)]

        def m_del(k):
            def f(st):
                if not self.has(st, n(k)):
                    return [(st, KEYERR)]
                return [(self.rm(st, n(k)), OK)]
            return f

        def m_pop(k, default=ANY, index=-1, whole=False):
            def f(st):
                if not self.has(st, n(k)):
                    return [(st, KEYERR if default is ANY else ("ok", default))]
                v = self.val(st, n(k))
                r = v if (whole or not multi) else v[index]
                return [(self.rm(st, n(k)), ("ok", r))]
            return f

        def m_popitem(last=True, index=-1, whole=False):
            def f(st):
                if not st:
                    return [(st, KEYERR)]
                k, v = st[-1] if last else st[0]
                r = v if (whole or not multi) else v[index]
                return [(self.rm(st, k), ("ok", (k, r)))]
            return f

        def m_setdefault(k, v):
            def f(st):
                if self.has(st, n(k)):
                    return [(st, ("ok", self.newest(self.val(st, n(k)))))]
                return [(self.put(st, n(k), v), ("ok", v))]
            return f

        def m_append(k, v):       # odict.append: only when absent
            def f(st):
                if self.has(st, n(k)):
                    return [(st, KEYERR)]
                return [(self.put(st, n(k), v), OK)]
            return f

        def m_insert(i, k, v):
            def f(st):
                if self.has(st, n(k)):
                    return [(st, KEYERR)]
                lst = list(st)
                lst.insert(i, (n(k), (v,) if multi else v))
                return [(tuple(lst), OK)]
            return f

        def m_update(pairs):
            def f(st):
                for k, v in pairs:
                    st = self.put(st, n(k), v)
                return [(st, OK)]
            return f

        def m_create(pairs):
            def f(st):
                for k, v in pairs:
                    if not self.has(st, n(k)):
                        st = self.put(st, n(k), v)
                return [(st, OK)]
            return f

        def m_reorder(pairs):
            """values taken from other, those keys moved to the end in other's order.
            modict: the statement does not say whether reorder replaces or appends: both accepted."""
            def f(st):
                alts = []
                for mode in (("replace", "append") if multi else ("replace",)):
                    s = st
                    for k, v in pairs:
                        k = n(k)
                        if multi:
                            old = self.val(s, k) if self.has(s, k) else ()
                            nv = (old + (v,)) if mode == "append" else (v,)
                        else:
                            nv = v
                        s = self.rm(s, k) + ((k, nv),)
                    alts.append((s, OK))
                return alts
            return f

        def m_replace_state(fn):
            return lambda st: [(fn(st), OK)]

        def m_sift(fields):
            def f(st):
                if any(not self.has(st, n(k)) for k in fields):
                    return [(st, KEYERR)]
                out = ()
                for k in fields:          # a field named twice (or in two spellings) appears once
                    if not self.has(out, n(k)):
                        out += ((n(k), self.val(st, n(k))),)
                return [(out, OK)]
            return f

        V = [1, 2]
        # simplest first: single-key mutators
        for k in K:
            for v in V:
                op("d[%r] = %r" % (k, v), m_set(k, v))
        for k in K:
            op("del d[%r]" % k, m_del(k))
        for k in K:
            op("d.pop(%r)" % k, m_pop(k))
        for k in K:
            op("d.pop(%r, 'D')" % k, m_pop(k, "D"))
        # defaults drawn from the stored-value alphabet: the default can be the very object that is stored under the key
        for k in K:
            for dv in (1, None, 0):
                op("d.pop(%r, %r)" % (k, dv), m_pop(k, dv))
        if not multi:
            op("d['a'] = 0", m_set("a", 0))
            op("d['a'] = None", m_set("a", None))
            op("d['b'] = None", m_set("b", None))
        op("d.popitem()", m_popitem())
        for k in K:
            op("d.setdefault(%r)" % k, m_setdefault(k, None))
            op("d.setdefault(%r, 2)" % k, m_setdefault(k, 2))
        op("d.clear()", lambda st: [((), OK)])
        if multi:
            for k in K:
                for v in V:
                    op("d.append(%r, %r)" % (k, v), m_set(k, v))
            op("d.add('a', 1)", m_set("a", 1))
            for k in K:
                for v in V:
                    op("d.replace(%r, %r)" % (k, v),
                       (lambda k, v: lambda st: [((tuple((a, (v,)) if a == k else (a, b) for a, b in st)
                                                   if self.has(st, k) else st + ((k, (v,)),)), OK)])(k, v))
            for k in K:
                op("d.pop(%r, index=0)" % k, m_pop(k, index=0))
                op("d.pop(%r, 'D', index=0)" % k, m_pop(k, "D", index=0))
                op("d.poplist(%r)" % k, m_pop(k, whole=True))
                op("d.poplist(%r, 'D')" % k, m_pop(k, "D", whole=True))
            op("d.popall('a')", m_pop("a", whole=True))
            op("d.popitem(last=False)", m_popitem(last=False))
            op("d.popitem(index=0)", m_popitem(index=0))
            op("d.poplistitem()", m_popitem(whole=True))
            op("d.poplistitem(last=False)", m_popitem(last=False, whole=True))
        else:
            for k in K:
                op("d.append(%r, 2)" % k, m_append(k, 2))
        for i in (0, 1, 5):
            for k in K:
                op("d.insert(%d, %r, 2)" % (i, k), m_insert(i, k, 2))
        # bulk operations in every argument form
        for bulk in self.bulks():
            for text, pairs in self.forms(bulk):
                op("d.update(%s)" % text, m_update(pairs))
        op("d.update([('b', 1)], {'a': 2}, b=2)", m_update([("b", 1), ("a", 2), ("b", 2)]))
        op("d.update(d)", lambda st: [((tuple((k, v + v) for k, v in st) if multi else st), OK)])
        for bulk in self.bulks():
            for text, pairs in self.forms(bulk, with_multi=False):
                op("d.create(%s)" % text, m_create(pairs))
        for bulk in self.bulks():
            for text, pairs in self.forms(bulk, with_multi=False):
                if text.startswith(("odict(", "lodict(")):
                    op("d.reorder(%s)" % text, m_reorder(pairs))
            if multi:
                # other modict: its newest values (replace) / all its values (append) -- accept both
                allv = list(bulk)
                newest = list(dict(bulk).items())

                def f(st, allv=allv, newest=newest):
                    rep = m_reorder(newest)(st)[0]
                    s = st
                    for k, v in allv:
                        s = self.put(s, k, v)
                    for k, _ in newest:
                        s = self.rm(s, k) + ((k, self.val(s, k)),)
                    whole = st
                    for k, _ in newest:
                        whole = self.rm(whole, k) + ((k, tuple(v for kk, v in allv if kk == k)),)
                    return [rep, (s, OK), (whole, OK)]
                op("d.reorder(modict(%r))" % (bulk,), f)
        op("d.reorder(d)", lambda st: [(st, OK)])
        op("d.reorder({'a': 1})", lambda st: [(st, ("exc", "ValueError"))])
        # constructors (replace the object)
        for bulk in self.bulks():
            for text, pairs in self.forms(bulk):
                op("d = %s(%s)" % (self.kind, text), (lambda pairs: lambda st: m_update(pairs)(()))(pairs))
        op("d = %s([('b', 1)], {'a': 2}, b=2)" % self.kind,
           lambda st: m_update([("b", 1), ("a", 2), ("b", 2)])(()))
        # the object replaced by a copy of itself: the copy must be a faithful, healthy object
        op("d = d.copy()", m_replace_state(lambda st: st))
        op("d = d.sift()", m_replace_state(lambda st: st))
        for fields in ([], ["a"], ["b", "a"], ["A"], ["a", "b", "A"], ["zz"]):
            if multi and "A" in fields:
                continue
            ops.append(("d = d.sift(%r)" % (fields,), m_sift(fields)))
        for p in range(pickle.HIGHEST_PROTOCOL + 1):
            op("d = pickle.loads(pickle.dumps(d, %d))" % p, m_replace_state(lambda st: st))
        op("d = copy.copy(d)", m_replace_state(lambda st: st))
        op("d = copy.deepcopy(d)", m_replace_state(lambda st: st))
        if multi:
            op("d = d.fromkeys(['b', 'a'], 1)", lambda st: [((("b", (1,)), ("a", (1,))), OK)])
        # a list handed out by keys() / values() / items() is a snapshot: a later mutation of the dict must not change it ...
        mutations = [("d['b'] = 2", m_set("b", 2)), ("d.pop('a', None)", m_pop("a", None)), ("d.clear()", lambda st: [((), OK)])]
        for view in ("keys", "values", "items"):
            for mtext, mfn in mutations:
                op("r = d.%s(); s = list(r); %s; _ = not isinstance(r, list) or r == s" % (view, mtext),
                   (lambda mfn: lambda st: [(mfn(st)[0][0], ("ok", True))])(mfn))
        # ... and editing such a list must not touch the dict
        for view, edit in (("keys", "r.append('zz')"), ("keys", "r.reverse()"), ("keys", "r.clear()"), ("keys", "'a' in r and r.remove('a')"),
                           ("values", "r.clear()"), ("values", "r.append(9)"), ("items", "r.clear()"), ("items", "r.reverse()")):
            op("r = d.%s(); %s" % (view, edit), lambda st: [(st, None)])
        # deleting while iterating over keys() visits every key
        op("for k in d.keys(): d.pop(k)", lambda st: [((), None)])
        op("for k in d.keys(): del d[k]", lambda st: [((), None)])
        # one-shot iterators of duples (iter, zip, generator): the reference consumes an equal list
        for bulk in (self.bulks()[1:3] if multi else self.bulks()[2:4]):
            ks, vs = [k for k, _ in bulk], [v for _, v in bulk]
            for arg in ("iter(%r)" % (bulk,), "zip(%r, %r)" % (ks, vs), "((k, v) for k, v in %r)" % (bulk,)):
                op("d.update(%s)" % arg, m_update(list(bulk)))
            op("d.create(iter(%r))" % (bulk,), m_create(list(bulk)))
            op("d = %s(zip(%r, %r))" % (self.kind, ks, vs), (lambda pairs: lambda st: m_update(pairs)(()))(list(bulk)))
        op("d |= iter(%r)" % (self.bulks()[2 if not multi else 1],), m_update(list(self.bulks()[2 if not multi else 1])))
        # python >= 3.9 operator form of update
        for bulk in self.bulks()[:3]:
            text, pairs = self.forms(bulk)[1]
            op("d |= %s" % text, m_update(pairs))
        return ops

    # ---- read-only observations: (text, expected result)
    def observations(self, st):
        n, multi, K = self.n, self.multi, self.K
        new = self.newest
        keys = [k for k, _ in st]
        vals = [new(v) for _, v in st]
        items = [(k, new(v)) for k, v in st]
        obs = [("len(d)", ("ok", len(st))), ("bool(d)", ("ok", bool(st))),
               ("list(d)", ("ok", keys)), ("d.keys()", ("ok", keys)), ("list(d.iterkeys())", ("ok", keys)),
               ("d.values()", ("ok", vals)), ("list(d.itervalues())", ("ok", vals)),
               ("d.items()", ("ok", items)), ("list(d.iteritems())", ("ok", items)),
               ("list(reversed(d))", ("ok", keys[::-1])),
               ("list(dict(d).items())", ("ok", items)),
               ("repr(d)", OK)]
        for k in K:
            present = self.has(st, n(k))
            v = new(self.val(st, n(k))) if present else None
            obs.append(("%r in d" % k, ("ok", present)))
            obs.append(("d[%r]" % k, ("ok", v) if present else KEYERR))
            obs.append(("d.get(%r)" % k, ("ok", v)))
            obs.append(("d.get(%r, 'D')" % k, ("ok", v if present else "D")))
            if multi:
                full = list(self.val(st, k)) if present else []
                obs.append(("d.has_key(%r)" % k, ("ok", present)))
                obs.append(("d.getone(%r)" % k, ("ok", v)))
                obs.append(("d.get(%r, 'D', index=0)" % k, ("ok", full[0] if present else "D")))
                obs.append(("d.getlist(%r)" % k, ("ok", full)))
        if multi:
            lists = [list(v) for _, v in st]
            allitems = [(k, x) for k, v in st for x in v]
            obs += [("d.listvalues()", ("ok", lists)), ("list(d.iterlistvalues())", ("ok", lists)),
                    ("d.allvalues()", ("ok", [x for _, x in allitems])),
                    ("list(d.iterallvalues())", ("ok", [x for _, x in allitems])),
                    ("d.listitems()", ("ok", [(k, list(v)) for k, v in st])),
                    ("list(d.iterlistitems())", ("ok", [(k, list(v)) for k, v in st])),
                    ("d.allitems()", ("ok", allitems)), ("list(d.iterallitems())", ("ok", allitems)),
                    ("dump(d.fromkeys(['b', 'a'], 1))", ("ok", self.expdump((("b", (1,)), ("a", (1,)))))),
                    ("dump(d.fromkeys([]))", ("ok", self.expdump(())))]
        else:
            asdict = dict(st)
            obs += [("d == %r" % (asdict,), ("ok", True)), ("d != %r" % (asdict,), ("ok", False)),
                    ("d == %r" % (dict(asdict, zz=0),), ("ok", False))]
        obs += [("copy_independent(d)", ("ok", True)), ("type(d.copy()).__name__", ("ok", self.kind)),
                ("d.copy() is not d", ("ok", True))]
        return obs


# ------------------------------------------------------------------ oset

def sdump(s):
    """observable dump of an oset: forward order, backward order, index keys"""
    return ("oset", tuple(s), tuple(reversed(s)), tuple(sorted(s.map)))


class SetSpec:
    kind = "oset"

    def __init__(self, mods):
        self.cls = mods["osetting"].oset
        self.U = ["a", "b", "c"]
        self.ns0 = dict(oset=self.cls, cls=self.cls, dump=sdump, pickle=pickle, copy=copy)
        self.init_text = "d = oset()"
        self.st0 = ()
        self.others = [(), ("a",), ("c", "a"), ("b", "c"), ("c", "b", "a")]
        self.ops = self._ops()

    def expdump(self, st, kind=None):
        return ("oset", tuple(st), tuple(reversed(st)), tuple(sorted(st)))

    def canon(self, d):
        try:
            return sdump(d)
        except Exception as ex:
            return ("broken", type(ex).__name__)

    def dump(self, d):
        return sdump(d)

    def _ops(self):
        ops = []

        def op(text, fn):
            ops.append((text, fn))

        def add(st, x):
            return st if x in st else st + (x,)

        def sub(st, o):
            return tuple(x for x in st if x not in o)

        for x in self.U:
            op("d.add(%r)" % x, (lambda x: lambda st: [(add(st, x), OK)])(x))
        for x in self.U:
            op("d.discard(%r)" % x, (lambda x: lambda st: [(sub(st, (x,)), OK)])(x))
        for x in self.U:
            op("d.remove(%r)" % x, (lambda x: lambda st: [(sub(st, (x,)), OK) if x in st else (st, KEYERR)])(x))
        op("d.pop()", lambda st: [(st[:-1], ("ok", st[-1])) if st else (st, KEYERR)])
        op("d.pop(last=False)", lambda st: [(st[1:], ("ok", st[0])) if st else (st, KEYERR)])
        op("d.clear()", lambda st: [((), OK)])
        for o in self.others:
            t = "oset(%r)" % (list(o),)

            def union(st, o=o):
                for x in o:
                    st = add(st, x)
                return st
            op("d |= %s" % t, (lambda u: lambda st: [(u(st), OK)])(union))
            op("d &= %s" % t, (lambda o: lambda st: [(tuple(x for x in st if x in o), OK)])(o))
            op("d -= %s" % t, (lambda o: lambda st: [(sub(st, o), OK)])(o))
            op("d ^= %s" % t, (lambda o: lambda st: [(sub(st, o) + tuple(x for x in o if x not in st), OK)])(o))
            op("d = d | %s" % t, (lambda u: lambda st: [(u(st), OK)])(union))
            op("d = d - %s" % t, (lambda o: lambda st: [(sub(st, o), OK)])(o))
        op("d |= ['c', 'a']", lambda st: [(add(add(st, "c"), "a"), OK)])
        for it in ("abca", ["c", "b", "c"], ()):
            def ctor(st, it=it):
                s = ()
                for x in it:
                    s = add(s, x)
                return [(s, OK)]
            op("d = oset(%r)" % (it,), ctor)
        op("d = oset(d)", lambda st: [(st, OK)])
        return ops

    def observations(self, st):
        obs = [("len(d)", ("ok", len(st))), ("bool(d)", ("ok", bool(st))), ("list(d)", ("ok", list(st))),
               ("list(reversed(d))", ("ok", list(st)[::-1])), ("repr(d)", OK),
               ("d == oset(%r)" % (list(st),), ("ok", True)), ("d != oset(%r)" % (list(st),), ("ok", False)),
               ("d == oset(%r)" % (list(st) + ["zz"],), ("ok", False)),
               ("d == set(%r)" % (list(st),), ("ok", True)),
               ("d == set(%r)" % (list(st) + ["zz"],), ("ok", False))]
        for x in self.U + ["zz"]:
            obs.append(("%r in d" % x, ("ok", x in st)))
        me = ("ok", self.expdump(st))
        for o in self.others + [("zz",)]:
            t = "oset(%r)" % (list(o),)
            union = st + tuple(x for x in o if x not in st)
            diff = tuple(x for x in st if x not in o)
            inter = sorted(x for x in st if x in o)
            sym = sorted(set(st) ^ set(o))
            obs += [("dump(d | %s)" % t, ("ok", self.expdump(union))),
                    ("dump(d - %s)" % t, ("ok", self.expdump(diff))),
                    ("type(d & %s).__name__, sorted(d & %s), len(d & %s)" % (t, t, t), ("ok", ("oset", inter, len(inter)))),
                    ("type(d ^ %s).__name__, sorted(d ^ %s), len(d ^ %s)" % (t, t, t), ("ok", ("oset", sym, len(sym)))),
                    ("d <= %s" % t, ("ok", set(st) <= set(o))), ("d < %s" % t, ("ok", set(st) < set(o))),
                    ("d >= %s" % t, ("ok", set(st) >= set(o))), ("d > %s" % t, ("ok", set(st) > set(o))),
                    ("d.isdisjoint(%s)" % t, ("ok", not (set(st) & set(o)))),
                    ("dump(%s | d)" % t, ("ok", self.expdump(o + tuple(x for x in st if x not in o))))]
        obs += [("d <= set(%r)" % (list(st),), ("ok", True)), ("dump(oset(d))", me), ("dump(oset(list(d)))", me),
                ("oset(d) is not d", ("ok", True))]
        return obs


# ------------------------------------------------------------------ explorer

HANG = 0.3        # seconds granted to a single operation before it is declared non-terminating


def apply_op(text, ns):
    """one operation on the real object under a watchdog; a hang is reported as ('exc', 'Hang')"""
    try:
        with core.watchdog(HANG):
            return run_text(text, ns)
    except core.Watchdog:
        ns["d"] = None
        return ("exc", "Hang")


def replay(spec, hist):
    ns = dict(spec.ns0)
    exec(spec.init_text, ns)
    for text in hist:
        run_text(text, ns)
    return ns


def explore(spec, max_depth):
    part = core.Part()
    kind = spec.kind
    ns = replay(spec, [])
    seen = {spec.canon(ns["d"])}
    frontier = collections.deque([((), spec.st0)])
    observe(spec, part, ns, spec.st0, ())
    part.traces += 1
    depth_reached = 0
    capped = False
    hung = set()
    while frontier:
        hist, st = frontier.popleft()
        if max_depth is not None and len(hist) >= max_depth:
            capped = True
            continue
        for text, model in spec.ops:
            if text in hung:
                part.notes["%s: %s not retried after it hung once" % (kind, text)] += 1
                continue
            ns = replay(spec, hist)
            got = apply_op(text, ns)
            if got == ("exc", "Hang"):
                hung.add(text)
            h2 = hist + (text,)
            part.transitions += 1
            part.traces += 1
            part.evaluations += 1
            opname = opname_of(text)
            part.outcome("%s.%s:%s" % (kind, opname, "ok" if got[0] == "ok" else got[1]))
            alts = model(st)
            chosen = None
            d = ns["d"]
            try:
                gotdump = ("ok", spec.dump(d))
            except Exception as ex:
                gotdump = ("exc", type(ex).__name__)
            for st2, exp in alts:
                if matches(got, exp) and matches(gotdump, ("ok", spec.expdump(st2))):
                    chosen = st2
                    break
            if chosen is None:
                st2, exp = alts[0]
                if not matches(got, exp):
                    grp = "%s.%s|%s" % (kind, opname, kindof(got, exp))
                    what = "%s: after [%s] the call %s %s, model: %s" % (
                        kind, "; ".join(hist) or "new", text, show(got) if got[0] == "exc" else "returns " + show(got), show(exp))
                else:
                    grp = "%s.%s|contents differ" % (kind, opname)
                    what = "%s: after [%s] then %s the contents are %s, model: %s" % (
                        kind, "; ".join(hist) or "new", text, show(gotdump), spec.expdump(st2))
                part.violation(grp, "; ".join(h2), what,
                               dict(container=kind, init=spec.init_text, history=list(hist), op=text, got=show(got),
                                    expected=show(exp), got_contents=gotdump, expected_contents=spec.expdump(st2),
                                    how="exec the lines of init+history+op in a namespace with odict/lodict/modict/oset, pickle, copy"))
                continue            # real and model have diverged: do not expand
            depth_reached = max(depth_reached, len(h2))
            k = spec.canon(ns["d"])
            if k not in seen:
                seen.add(k)
                observe(spec, part, ns, chosen, h2)   # read-only views are a function of the state: once per state
                frontier.append((h2, chosen))
                part.nontrivial(repr(k))
                if len(seen) % 37 == 1:
                    part.sample(dict(container=kind, history=list(h2), contents=k))
    part.states = len(seen)
    part.capped = False
    part.extra["%s" % kind] = dict(states=len(seen), depth_reached=depth_reached, fixpoint=not capped,
                                   operations=len(spec.ops), depth_bound=max_depth)
    return part


def opname_of(text):
    """coarse operation name: method / operator without arguments"""
    t = text
    if t.startswith("d = "):
        t = t[4:]
        for name in ("pickle.loads", "copy.copy", "copy.deepcopy"):
            if t.startswith(name):
                if name == "pickle.loads":
                    return "pickle(protocol 0-1)" if t.rstrip(")")[-1] in "01" else "pickle(protocol 2+)"
                return name.split(".")[-1]
        if t.startswith("d."):
            return t[2:].split("(")[0]
        if t.startswith("d "):
            return "operator " + t.split(" ")[1]
        return "constructor"
    if t.startswith("r = d."):
        view = t[6:].split("(")[0]
        return ("%s() result held across a mutation" if "; s = list(r)" in t else "edit of the list returned by %s()") % view
    if t.startswith("for k in d.keys()"):
        return "delete while iterating keys()"
    if t.startswith("del "):
        return "__delitem__"
    if t.startswith("d["):
        return "__setitem__"
    if t.startswith("d."):
        name = t[2:].split("(")[0]
        if name in ("update", "reorder") and t.endswith("(d)"):
            return name + "(self)"
        return name
    if t.startswith("d ") and t.split(" ")[1].endswith("="):
        return "operator " + t.split(" ")[1]
    return t


def obsname_of(text):
    t = text
    for k in ("'a'", "'b'", "'A'", "'zz'"):
        t = t.replace(k, "K")
    if "pickle.dumps" in t:
        return "pickle round trip"
    if t.startswith("dump(d.sift(["):
        return "sift(fields)"
    if t.startswith("d == ") or t.startswith("d != "):
        return t[:4] + " other"
    for sym in (" | ", " - ", " & ", " ^ ", " <= ", " < ", " >= ", " > "):
        if sym in t:
            return ("other%sd" if t.startswith("dump(oset([") else "d%sother") % sym
    if "isdisjoint" in t:
        return "isdisjoint"
    return t


def observe(spec, part, ns, st, hist):
    kind = spec.kind
    d = ns["d"]
    before = spec.canon(d)
    for text, exp in spec.observations(st):
        got = run_text(text, ns)
        part.evaluations += 1
        if not matches(got, exp):
            part.violation("%s observe %s|%s" % (kind, obsname_of(text), kindof(got, exp)),
                           "[%s] %s" % ("; ".join(hist) or "new", text),
                           "%s: after [%s] the expression %s %s, model: %s" % (
                               kind, "; ".join(hist) or "new", text,
                               show(got) if got[0] == "exc" else "gives " + show(got), show(exp)),
                           dict(container=kind, init=spec.init_text, history=list(hist), observe=text, got=show(got),
                                expected=show(exp),
                                how="exec init+history, then eval the expression; dump(x) = (class name, x._keys, sorted raw dict items)"))
    if ns["d"] is not d or spec.canon(d) != before:
        part.violation("%s observe|read-only operations changed the contents" % kind, "[%s]" % "; ".join(hist),
                       "%s: the read-only observations changed the container after [%s]" % (kind, "; ".join(hist)),
                       dict(container=kind, history=list(hist)))


def work(kind):
    core.use_repo()
    from ioflo.aid import odicting, osetting
    mods = dict(odicting=odicting, osetting=osetting)
    spec = SetSpec(mods) if kind == "oset" else DictSpec(kind, mods)
    depth = None
    if kind == "modict":
        depth = 4 if core.TIER == "quick" else 6
    return explore(spec, depth)


def run():
    ck = core.Check("C39", "model_checking", META["technique"])
    ck.merge(core.pmap(work, ["odict", "lodict", "modict", "oset"]))
    ck.assumptions = [
        "keys {a,b,A} (modict {a,b}), values {1,2} plus 0 and None on a/b; pop defaults 'D', 1, None, 0 (so a default can be the identical object that is stored); oset universe {a,b,c}; larger universes add no new code paths (no method depends on key count or value)",
        "lodict: 'every mapping operation' is read as every method that takes a key or a bulk argument, including the inherited pop/insert/create/sift/reorder",
        "modict: inherited odict operations (insert, sift, pickle, copy, reorder) must keep the key -> list-of-values shape; reorder may replace or append",
        "keys() / values() / items() results that are lists are snapshots: they must not change when the dict is mutated afterwards, editing them must "
        "not change the dict, and deleting every key while iterating keys() must empty the dict (a non-list view would be exempt from the first clause)",
        "update / create / constructor / |= are also given one-shot iterators of duples (iter(list), zip, generator expression); the reference consumes an equal list",
        "order of oset & and ^ results, repr text and return values of void mutators are not compared",
        "a single operation running longer than %.1fs of CPU on a 3-key container is reported as non-terminating" % HANG,
    ]
    return ck.finish(
        rule="BFS over all histories of the operation alphabet (odict/lodict ~130 ops, modict ~150, oset ~45) with dedupe on the real "
             "object's dump; odict/lodict/oset to fixpoint, modict to depth %d; non-trivial = distinct reachable container state"
             % (4 if core.TIER == "quick" else 6),
        exhaustive=True)


if __name__ == "__main__":
    core.main(run)
