"""C12 Cloned framers run like their originals and never share relative state.
Engine A: clone program family (named / insular / nested / reared + razed) x BFS over env-input histories on the real
Builder/Skedder, compared with the reference run of the de-sugared program in which every clone is the original moot
declared as an ordinary auxiliary under the clone's name (the metamorphic relation of the statement)."""
META = dict(
    engine="flo", level="model_checking",
    technique="explicit-state BFS over env-input histories of enumerated clone programs on the real Builder/Skedder vs the reference interpreter run on the de-sugared (clone = ordinary auxiliary) program; resolved relative paths per clone",
    text="Moot framers using `x of framer`, `y of frame`, `z of framer main`, `w of frame main` and an inner `aux ... as mine`, cloned 1-3 times as named "
         "and insular clones in one or two frames, nested (a moot cloning a moot), reared 1-3 times / razed all|first|last at run time, and the same marker-waiting moot cloned under two main framers with colliding tags (writes to the absolute share as inputs), are "
         "explored through every reachable (state x env input). Oracles: every clone's per-tick recorder events, done flag, active outline and the "
         "values/stamps of every relative share equal those of the de-sugared program run by the reference interpreter (so each clone does what its "
         "original would do alone); the store paths resolved for the relative references of each clone (read from the real built acts) contain "
         "that clone's own name and are exactly the expected ones; after raze only razeable insular clones of the named frame disappear, a razed clone "
         "emits no further events, its name leaves the framer registry and a later rear can reuse it.",
    note="De-sugaring (mc/flo/lang.py: instantiate/desugar) and relative addressing rules are written from the statement / documentation, independent of Framer.clone and Act.resolvePath.",
)
from mc import core
from mc.flo import runner


def family():
    from mc.flo import families as F
    yield from F.fam_clones()
    yield from F.fam_clone_markers()
    yield from F.fam_clones_static_and_reared()
    yield from F.fam_clone_guards()
    yield from F.fam_clone_shapes()
    yield from F.fam_clone_doer_state()
    yield from F.fam_clones_rear_nested()


def rel_paths(prog):
    """framer name -> set of absolute paths its put/inc items resolve to, from the de-sugared AST."""
    from mc.flo import lang
    d = lang.desugar(prog)
    out = {}
    for fm in d["framers"]:
        ps = set()
        for fr in fm["frames"]:
            for it in fr["items"]:
                if it[0] == "put":
                    ps.add(it[3])
                elif it[0] == "inc":
                    ps.add(it[2])
        out[fm["name"]] = ps
    return out


def on_prog(p, idx, label, prog, meta):
    from mc.flo import real, lang
    expect = rel_paths(prog)
    watch = tuple(sorted(set().union(*expect.values())))
    # static part: resolved share names in the real build
    br = real.build_text(lang.emit(prog))
    if br.ok:
        dump = real.dump_house(br.houses[0], shares=False)
        for fmd in dump["framers"]:
            want = expect.get(fmd["name"])
            if want is None:
                continue
            got = set()
            for fr in fmd["frames"]:
                for lst in ("enacts", "reacts", "exacts", "preacts", "beacts", "renacts", "rexacts"):
                    for act in fr[lst]:
                        for k, v in act.get("parms") or []:
                            if isinstance(v, str) and v.startswith("<share "):
                                got.add(v[7:-1])
            p.evaluations += 1
            missing = sorted(w for w in want if w not in got)
            if missing:
                runner.violation(p, idx, "clone-relative-path", "%s framer %s" % (label, fmd["name"]),
                                 "relative references of %s should resolve to %r; built acts reference %r" % (fmd["name"], missing, sorted(got)),
                                 dict(text=lang.emit(prog)))
                return

    def cmp(rr, ro):
        d = runner.cmp_full(fields=(0, 1, 3, 4, 5, 8))(rr, ro)
        if d:
            return d
        moots = {fm["name"] for fm in prog["framers"] if fm.get("schedule") == "moot"}
        a = [n for n in rr.final["registry"] if n not in moots]
        if a != ro.final["registry"]:
            return ("registry-differs", "framer names registered after the run %r, expected %r (razed: %r)" % (a, ro.final["registry"], ro.final["razed"]))
        return None

    read = set()
    for fm in lang.desugar(prog)["framers"]:
        for fr in fm["frames"]:
            for it in fr["items"]:
                for n in (it[2] if it[0] in ("go", "auxif") else it[1] if it[0] == "let" else []):
                    if n[0] in ("cmp", "bool"):
                        read.add(n[1])
    if meta.get("kind") == "xwrites":
        from mc.flo import families as F
        runner.explore_and_check(p, idx, label, prog, mons=(), cmp=cmp, watch=watch + ("x",), canon_paths=read | {"x"},
                                 alphabet=F.X_ALPHABET, depth=8 if core.TIER == "quick" else 12, sample_every=7)
        return
    runner.explore_and_check(p, idx, label, prog, mons=(), cmp=cmp, watch=watch, canon_paths=read, depth=10 if core.TIER == "quick" else 14, sample_every=13,
                             outcome=lambda rr: "%d-framers/%s" % (len(rr.final["registry"]), rr.ticks[-1]["framers"][0][4] if rr.ticks else None))


def run():
    ck = core.Check("C12", "model_checking", META["technique"])
    runner.run_family(ck, family, on_prog)
    ck.assumptions = ["reference interpreter mc/flo/ref.py on the de-sugared program", "clone naming rule <parent name>_<tag>, insular tags <moot><n>"]
    return ck.finish(rule="program = clone layout (tags, frames, nesting) or rear/raze plan; state = canonical snapshot of all framers incl. clones "
                          "+ relative shares; transition = one tick with one of 4 env inputs (+ stop tick)", exhaustive=True)


if __name__ == "__main__":
    core.main(run)
