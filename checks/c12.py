"""C12 Cloned framers run like their originals and never share relative state.
Engine A: clone program family (named / insular / nested / reared + razed) x BFS over env-input histories on the real
Builder/Skedder, compared with the reference run of the de-sugared program in which every clone is the original moot
declared as an ordinary auxiliary under the clone's name (the metamorphic relation of the statement)."""
META = dict(
    engine="flo", level="model_checking",
    technique="explicit-state BFS over env-input histories of enumerated clone programs on the real Builder/Skedder vs the reference interpreter run on the de-sugared (clone = ordinary auxiliary) program; resolved relative paths per clone",
    text="Moot framers using `x of framer`, `y of frame`, `z of framer main`, `w of frame main` and an inner `aux ... as mine`, cloned 1-3 times as named "
         "and insular clones in one or two frames, nested (a moot cloning a moot), reared 1-3 times / razed all|first|last at run time, and the same marker-waiting moot cloned under two main framers with colliding tags (writes to the absolute share as inputs), are "
         "explored through every reachable (state x env input). Oracles: every clone's per-tick recorder events, done flag, active outline and the "
         "values/stamps of every relative share equal those of the de-sugared program run by the reference interpreter (so each clone does what its "
         "original would do alone); the store paths resolved for the relative references of each clone (read from the real built acts) contain "
         "that clone's own name and are exactly the expected ones; after raze only razeable insular clones of the named frame disappear, a razed clone "
         "emits no further events, its name leaves the framer registry and a later rear can reuse it. A moot declared `via <inode>` cloned `as mine|c1 via mine` and reared at run time (alone and side by side): every clone walks wait, work, fin on its original's inode-relative data and creates no stray shares.",
    note="De-sugaring (mc/flo/lang.py: instantiate/desugar) and relative addressing rules are written from the statement / documentation, independent of Framer.clone and Act.resolvePath.",
)
from mc import core
from mc.flo import runner


def family():
    from mc.flo import families as F
    yield from F.fam_clones()
    yield from F.fam_clone_markers()
    yield from F.fam_clones_static_and_reared()
    yield from F.fam_clone_guards()
    yield from F.fam_clone_shapes()
    yield from F.fam_clone_doer_state()
    yield from F.fam_clones_rear_nested()


def rel_paths(prog):
    """framer name -> set of absolute paths its put/inc items resolve to, from the de-sugared AST."""
    from mc.flo import lang
    d = lang.desugar(prog)
    out = {}
    for fm in d["framers"]:
        ps = set()
        for fr in fm["frames"]:
            for it in fr["items"]:
                if it[0] == "put":
                    ps.add(it[3])
                elif it[0] == "inc":
                    ps.add(it[2])
        out[fm["name"]] = ps
    return out


def on_prog(p, idx, label, prog, meta):
    from mc.flo import real, lang
    expect = rel_paths(prog)
    watch = tuple(sorted(set().union(*expect.values())))
    # static part: resolved share names in the real build
    br = real.build_text(lang.emit(prog))
    if br.ok:
        dump = real.dump_house(br.houses[0], shares=False)
        for fmd in dump["framers"]:
            want = expect.get(fmd["name"])
            if want is None:
                continue
            got = set()
            for fr in fmd["frames"]:
                for lst in ("enacts", "reacts", "exacts", "preacts", "beacts", "renacts", "rexacts"):
                    for act in fr[lst]:
                        for k, v in act.get("parms") or []:
                            if isinstance(v, str) and v.startswith("<share "):
                                got.add(v[7:-1])
            p.evaluations += 1
            missing = sorted(w for w in want if w not in got)
            if missing:
                runner.violation(p, idx, "clone-relative-path", "%s framer %s" % (label, fmd["name"]),
                                 "relative references of %s should resolve to %r; built acts reference %r" % (fmd["name"], missing, sorted(got)),
                                 dict(text=lang.emit(prog)))
                return

    def cmp(rr, ro):
        d = runner.cmp_full(fields=(0, 1, 3, 4, 5, 8))(rr, ro)
        if d:
            return d
        moots = {fm["name"] for fm in prog["framers"] if fm.get("schedule") == "moot"}
        a = [n for n in rr.final["registry"] if n not in moots]
        if a != ro.final["registry"]:
            return ("registry-differs", "framer names registered after the run %r, expected %r (razed: %r)" % (a, ro.final["registry"], ro.final["razed"]))
        return None

    read = set()
    for fm in lang.desugar(prog)["framers"]:
        for fr in fm["frames"]:
            for it in fr["items"]:
                for n in (it[2] if it[0] in ("go", "auxif") else it[1] if it[0] == "let" else []):
                    if n[0] in ("cmp", "bool"):
                        read.add(n[1])
    if meta.get("kind") == "xwrites":
        from mc.flo import families as F
        runner.explore_and_check(p, idx, label, prog, mons=(), cmp=cmp, watch=watch + ("x",), canon_paths=read | {"x"},
                                 alphabet=F.X_ALPHABET, depth=8 if core.TIER == "quick" else 12, sample_every=7)
        return
    runner.explore_and_check(p, idx, label, prog, mons=(), cmp=cmp, watch=watch, canon_paths=read, depth=10 if core.TIER == "quick" else 14, sample_every=13,
                             outcome=lambda rr: "%d-framers/%s" % (len(rr.final["registry"]), rr.ticks[-1]["framers"][0][4] if rr.ticks else None))


# ---------------------------------------------------------------- clones of a moot declared `via <inode>`

VIA_SCRIPT = """house h
  framer mission be active first setup
    frame setup
      put 7 into .%(where)s.level
      put 0 into .%(where)s.worked
%(rear)s      go next
%(frames)s
    frame finish
      do rec with tag "finish.en" at enter
  framer worker be moot%(mootvia)s
    frame wait
      do rec with tag "wait.en" at enter
      go next if me.level == 7
    frame work
      do rec with tag "work.en" at enter
      inc me.worked with 1
      go next
    frame fin
      do rec with tag "fin.en" at enter
      done me
"""


def via_scripts():
    """(label, text, nclones, where): clones of a moot whose framer carries `via <inode>` (and a moot without one, cloned
    `via <inode>`), made statically (`as mine via mine`, `as c1 via mine`) and at run time (`rear`), alone and side
    by side: every clone must resolve its inode-relative data (`me.level`, `me.worked`) where its original would."""
    for mootvia in ("pool", "deep.pool"):
        for kinds in (("mine",), ("c1",), ("rear",), ("mine", "rear"), ("rear", "mine"), ("c1", "rear"), ("rear", "rear")):
            rear = ""
            frames = ""
            for i, k in enumerate(kinds):
                fname = "f%d" % i
                if k == "rear":
                    rear += "      rear worker in frame %s\n" % fname
                    aux = ""
                else:
                    aux = "      aux worker as %s via mine\n" % k
                frames += "    frame %s\n%s      go next if all is done\n      go next if elapsed >= 1.0\n" % (fname, aux)
            yield ("via/moot-%s/%s" % (mootvia, "+".join(kinds)),
                   VIA_SCRIPT % dict(where=mootvia, rear=rear, frames=frames, mootvia=" via " + mootvia), len(kinds), mootvia)


def via_work(arg):
    shard, nshards = arg
    core.use_repo()
    from mc.flo import real
    p = core.Part()
    for idx, (label, text, nclones, where) in enumerate(via_scripts()):
        if idx % nshards != shard:
            continue
        p.evaluations += 1
        p.nontrivial(label)
        br = real.build_text(text)
        if not br.ok:
            p.violation("via-clone|build-failed", label, "does not build: %r" % (br.exc,), dict(text=text))
            continue
        rr = real.run(br.houses, tick=0.125, horizon=40, watch=(where + ".worked", where + ".level", "worked", "level"))
        if rr.outcome != "returned":
            p.violation("via-clone|run-" + rr.outcome.split()[0], label, "run did not return: %s %r" % (rr.outcome, rr.exc), dict(text=text))
            continue
        seqs = {}
        for evs in rr.events:
            for (framer, frame, ctx, tag) in evs:
                if framer.startswith("mission_"):
                    seqs.setdefault(framer, []).append(frame)
        p.states += len(rr.ticks)
        p.transitions += sum(len(v) for v in seqs.values())
        p.outcome("%d-clones/%s" % (len(seqs), sorted(set(map(tuple, seqs.values())))[:1]))
        bad = sorted((n, v) for n, v in seqs.items() if v != ["wait", "work", "fin"])
        last = rr.ticks[-1]["shares"] if rr.ticks else {}
        worked = last.get(where + ".worked")
        stray = sorted(k for k in ("worked", "level") if k in last)
        if len(seqs) != nclones or bad or stray or worked is None or dict(worked[0]).get("value") != nclones:
            p.violation("via-clone|clone-does-not-run-like-its-original", label,
                        "every clone of the moot (declared via %s) should enter wait, work, fin and add 1 to %s.worked: clones ran %r, "
                        "%s.worked = %r, stray shares created %r" % (where, where, sorted(seqs.items()), where, worked, stray),
                        dict(text=text))
    return p


def run():
    ck = core.Check("C12", "model_checking", META["technique"])
    ck.merge(core.pmap(via_work, [(i, 7) for i in range(7)]))
    runner.run_family(ck, family, on_prog)
    ck.assumptions = ["reference interpreter mc/flo/ref.py on the de-sugared program", "clone naming rule <parent name>_<tag>, insular tags <moot><n>"]
    return ck.finish(rule="program = clone layout (tags, frames, nesting) or rear/raze plan; state = canonical snapshot of all framers incl. clones "
                          "+ relative shares; transition = one tick with one of 4 env inputs (+ stop tick)", exhaustive=True)


if __name__ == "__main__":
    core.main(run)
