"""C46 PID controller: output and error sum stay inside their limits, wrapped error, integrator reset.
Engine B (seq): every update sequence up to a depth over a value grid incl. inf/nan, on a real ControllerPid in a real house."""
META = dict(
    engine="seq", level="exploration",
    technique="bounded-exhaustive enumeration of controller configurations x update sequences (breadth first, deduplicated on the controller's fed-back state, snapshot/restore of the real object's shares) with limit / wrapped-error / integrator-reset oracles at every update (no sampling)",
    text="A real ControllerPid is created by Act.resolve from the Doer registry inside a resolved House/Framer/Frame for every configuration of wrap in {0, 180}, "
         "integrator limits {[-5,5], [0,0], [1,2]}, output limits {[-20,20], [0,0], [5,10], [-inf,inf]}, gain vectors over {0, 1, -3} plus inf and nan gains, and both "
         "rate modes. From the primed controller every sequence of up to 3 updates (2 for the rate-sensor mode in quick) with input and set point in "
         "{0, 1, -1, 0.005, 200, -200, inf, -inf, nan} (plus, when wrapping, five pairs exactly half a turn or half a turn plus whole turns apart and two pairs two to three turns apart), lapse in {-0.125, 0, 0.125, 1} "
         "(inf too in thorough) and sensed rate in {-1, 0.05, inf, nan} is executed, sequences being merged when "
         "they reach the same (prior set point, prior error, error sum). After every evaluated update: ovmin <= output <= ovmax and esmin <= error sum <= esmax "
         "(a NaN fails), the stored error is the shortest representative of input - set point modulo 2*wrap, the prior set point follows the threshold rule, "
         "and after a set point change above the threshold the new error sum equals the one obtained from the same update with the integrator forced to zero. "
         "A retune family adds operations that change ovmin/ovmax or esmin/esmax in the parm share between updates (tighter, shifted, back); every evaluated "
         "update is judged against the limits in the share at that moment.",
    note="Values, gains and limits are small fixed sets; limits are finite-or-infinite ordered pairs (a NaN limit is not ordered). The limits are required after "
         "updates the controller evaluates (positive lapse): the initial/restart value 0.0 of output and error sum is not a computed value. The output formula "
         "and the integrator's blending are not part of the statement and are not checked.",
)
import math
from fractions import Fraction as Fr
from mc import core

INF = float("inf")
NAN = float("nan")
VALUES = (0.0, 1.0, -1.0, 0.005, 200.0, -200.0, INF, -INF, NAN)
DRSP = 0.01
ESLIMS = ((-5.0, 5.0), (0.0, 0.0), (1.0, 2.0))
OVLIMS = ((-20.0, 20.0), (0.0, 0.0), (5.0, 10.0), (-INF, INF))
WRAPS = (0.0, 180.0)


def gain_vectors(full):
    """(gff, gpe, gde, gie) vectors, simplest first."""
    base = [(0.0, 0.0, 0.0, 0.0), (1.0, 1.0, 1.0, 1.0), (-3.0, -3.0, -3.0, -3.0), (0.0, 1.0, 0.0, 0.0), (0.0, 0.0, 0.0, 1.0)]
    extra = [(0.0, INF, 0.0, 0.0), (0.0, NAN, 0.0, 0.0)]
    if not full:
        return base + extra
    out = list(base)
    for a in (0.0, 1.0, -3.0):
        for b in (0.0, 1.0, -3.0):
            for c in (0.0, 1.0, -3.0):
                for d in (0.0, 1.0, -3.0):
                    if (a, b, c, d) not in out:
                        out.append((a, b, c, d))
    return out + extra + [(NAN, 0.0, 0.0, 0.0), (0.0, 0.0, -INF, 1.0)]


def fr(x):
    return repr(x)


def eq(a, b):
    """Same float (NaN equals NaN)."""
    if isinstance(a, float) and isinstance(b, float) and a != a and b != b:
        return True
    return a == b


def finite(*xs):
    return all(isinstance(x, (int, float)) and math.isfinite(x) for x in xs)


def shortest_ok(e, diff, wrap):
    """e is the shortest representative of diff modulo 2*wrap (exact rational test with a 1e-9 tolerance for the float add in %)."""
    if not finite(diff):
        return None          # undefined for non-finite differences: not judged
    if not finite(e):
        return False         # a finite difference must give a finite error
    if wrap == 0:
        return abs(e - diff) <= 1e-9 * max(1.0, abs(diff))
    if abs(e) > abs(wrap) + 1e-9:
        return False
    turns = (Fr(e) - Fr(diff)) / (2 * Fr(abs(wrap)))
    return abs(turns - round(turns)) <= Fr(1, 10 ** 11)


class Rig:
    """A real ControllerPid resolved inside a real House/Framer/Frame, plus snapshot/restore of everything it reads back."""

    def __init__(self, cfg):
        from ioflo.base import housing, framing, acting, doing, globaling
        from ioflo.aid.odicting import odict
        import ioflo.trim.interior.plain.controlling  # noqa: F401  registers ControllerPid
        wrap, calc, ger, (esmin, esmax), (gff, gpe, gde, gie), (ovmin, ovmax) = cfg
        housing.House.Clear()
        housing.ClearRegistries()
        house = housing.House(name="HouseC46")
        self.store = store = house.store
        house.assignRegistries()
        framer = framing.Framer(name="FramerC46", store=store)
        house.taskers.append(framer)
        house.framers.append(framer)
        house.mids.append(framer)
        house.orderTaskables()
        framer.assignFrameRegistry()
        self.frame = frame = framing.Frame(name="FrameC46", store=store, framer=framer)
        framer.first = frame
        parms = dict(wrap=wrap, drsp=DRSP, calcRate=calc, ger=ger, gff=gff, gpe=gpe, gde=gde, gie=gie,
                     esmax=esmax, esmin=esmin, ovmax=ovmax, ovmin=ovmin)
        self.act = act = acting.Act(actor="ControllerPid", registrar=doing.Doer,
                                    ioinits=odict(group="pid", output="goal.out", input="state.inp", rate="state.rate",
                                                  rsp="goal.rsp", parms=parms))
        frame.addByContext(act, globaling.RECUR)
        house.resolve()
        self.c = c = act.actor
        if type(c).__name__ != "ControllerPid" or c.store is not store or len(frame.enacts) != 1:
            raise core.BrokenCheck("ControllerPid did not resolve as expected")
        for k, v in parms.items():
            if not eq(getattr(c.parm.data, k), v):
                raise core.BrokenCheck("parm %s not taken" % k)
        # what the skedder/framer do on the first tick: stamp 0, enter the frame (restart act), first recur (lapse 0)
        store.changeStamp(0.0)
        frame.enter()
        frame.recur()
        self.initial = self.snap()

    def snap(self):
        c = self.c
        d = c.parm.data
        return (c.prsp.value, c.e.value, c.er.value, c.es.value, c.output.value, c.elapsed.value, c.stamp, c.lapse, self.store.stamp,
                (d.ovmin, d.ovmax, d.esmin, d.esmax))

    def restore(self, s):
        c = self.c
        c.prsp.value, c.e.value, c.er.value, c.es.value, c.output.value, c.elapsed.value, c.stamp, c.lapse = s[:8]
        self.store.changeStamp(s[8])
        d = c.parm.data
        if (d.ovmin, d.ovmax, d.esmin, d.esmax) != s[9]:
            c.parm.update(ovmin=s[9][0], ovmax=s[9][1], esmin=s[9][2], esmax=s[9][3])

    def update(self, ev):
        c = self.c
        if ev[0] == "ov":       # retune: what `put lo hi into <group>.parm` / parm.update does between two updates
            c.parm.update(ovmin=ev[1], ovmax=ev[2])
            return
        if ev[0] == "es":
            c.parm.update(esmin=ev[1], esmax=ev[2])
            return
        inp, rate, rsp, lapse = ev
        c.input.value = inp
        c.rate.value = rate
        c.rsp.value = rsp
        self.store.advanceStamp(lapse)
        self.act()          # what Frame.recur does for each of its acts


def canon(s, evaluated, mprsp):
    return (fr(s[0]), fr(s[1]), fr(s[3]), evaluated, fr(s[8]) if not finite(s[8]) else "t", fr(s[9]), fr(mprsp))


def model_setpoint(mprsp, ev, dstamp):
    """Reference: the set point the controller has acted on.  Only an update that is evaluated (positive lapse) can act on a
    change; a zero-lapse update computes nothing, so a change first seen there is still a change for the next evaluated update."""
    if len(ev) == 4 and dstamp > 0 and abs(ev[2] - mprsp) > DRSP:
        return ev[2]
    return mprsp


def run_history(rig, hist, mprsp):
    flag = False
    for ev in hist:
        before = rig.store.stamp
        rig.update(ev)
        d = rig.store.stamp - before
        mprsp = model_setpoint(mprsp, ev, d)
        if d > 0:
            flag = True
    return flag, mprsp


# (input, set point) pairs exactly half a turn apart, also plus whole turns, for wrap 180: the shortest difference is +-wrap, never 0
HALF_TURN = ((270.0, 90.0), (630.0, 90.0), (0.0, -180.0), (-90.0, 90.0), (-450.0, 90.0),
             # several turns apart (|difference| > 3 * wrap, up to 5.5 half turns): one fold is not enough, the error needs a true modulo
             (80.0, 720.0), (1000.0, 0.0))


OV_ALT = ((-5.0, 5.0), (30.0, 40.0))        # retune targets: tighter, shifted (ordered pairs)
ES_ALT = ((-1.0, 1.0), (3.0, 4.0))
RETUNE_VALUES = (0.0, 1.0, 200.0, -200.0, INF, NAN)


def events(calc, tier, wrap=0.0, retune=None):
    values = RETUNE_VALUES if (retune and tier == "quick") else VALUES
    if calc:        # the sensed rate is not read in this mode
        lapses = (0.125, 1.0) if tier == "quick" else (0.125, 1.0, INF)
        rates = (0.0,)
    else:
        lapses = (0.125, 1.0)
        rates = (-1.0, 0.05, INF, NAN) if tier == "quick" else (0.0, -1.0, 0.05, INF, NAN)
    # zero lapse (a second action in the same store stamp) and negative lapse (stamp set back; clamped to 0): the controller
    # computes nothing.  Every set point value is offered, so a set point change can be *first seen* on such an update.
    evs = [(1.0, 0.0, rsp, 0.0) for rsp in values] + [(1.0, 0.0, rsp, -0.125) for rsp in (0.0, 1.0, 200.0)]
    for lapse in lapses:
        for rate in rates:
            for rsp in values:
                for inp in values:
                    evs.append((inp, rate, rsp, lapse))
            if wrap:
                for inp, rsp in HALF_TURN:
                    evs.append((inp * abs(wrap) / 180.0, rate, rsp * abs(wrap) / 180.0, lapse))
    if retune:      # limit changes between updates: the two alternatives and back to the constructed pair
        ov0, es0 = retune
        for pair in OV_ALT + (ov0,):
            evs.append(("ov", pair[0], pair[1]))
        for pair in ES_ALT + (es0,):
            evs.append(("es", pair[0], pair[1]))
    return evs


def show_cfg(cfg):
    wrap, calc, ger, es, g, ov = cfg
    return "wrap=%r calcRate=%r ger=%r es=[%r,%r] gff,gpe,gde,gie=%r ov=[%r,%r]" % (wrap, calc, ger, es[0], es[1], g, ov[0], ov[1])


def show(cfg, hist):
    return "%s updates(input,rate,rsp,lapse)=%s" % (show_cfg(cfg), "".join(("(%r,%r,%r,%r)" if len(e) == 4 else "[set %s limits to %r,%r]") % e for e in hist))


def work(job):
    p = _work(job)
    tag_job(p, job)
    return p


def _work(job):
    core.use_repo()
    cfg, depth, tier = job[:3]
    retune = len(job) > 3 and job[3]
    wrap, calc, ger, (esmin0, esmax0), gains, (ovmin0, ovmax0) = cfg
    p = core.Part()
    try:
        rig = Rig(cfg)
    except core.BrokenCheck:
        raise
    except Exception as ex:
        p.evaluations += 1
        p.violation("construction raises %s: %s" % (type(ex).__name__, ex), show_cfg(cfg), "building the controller raised %r" % (ex,), dict(config=show_cfg(cfg)))
        return p
    evs = events(calc, tier, wrap, ((ovmin0, ovmax0), (esmin0, esmax0)) if retune else None)
    p.nontrivial(("cfg", fr(cfg)))

    def bad(group, hist, what, **kw):
        rep = dict(config=dict(wrap=wrap, drsp=DRSP, calcRate=calc, ger=ger, esmin=esmin0, esmax=esmax0, gff=gains[0], gpe=gains[1], gde=gains[2],
                               gie=gains[3], ovmin=ovmin0, ovmax=ovmax0),
                   updates=[dict(input=e[0], rate=e[1], rsp=e[2], lapse=e[3]) if len(e) == 4 else
                            {"parm.update": {e[0] + "min": e[1], e[0] + "max": e[2]}} for e in hist],
                   how="create ControllerPid with these parms, stamp 0, enter the frame, recur once, then per update set input/rate/rsp shares, "
                       "store.advanceStamp(lapse), call the act; a parm.update entry changes the limits in the <group>.parm share between two updates")
        rep.update(kw)
        p.violation(group, show(cfg, hist), what, rep)

    m0 = rig.initial[0]
    seen = {canon(rig.initial, False, m0): ()}
    layer = [(rig.initial, False, (), m0)]
    for d in range(1, depth + 1):
        nxt = []
        for pre, was_eval, hist, mprsp in layer:
            for ev in evs:
                rig.restore(pre)
                h2 = hist + (ev,)
                p.evaluations += 1
                p.transitions += 1
                try:
                    rig.update(ev)
                except Exception as ex:
                    bad("update raises %s: %s" % (type(ex).__name__, ex), h2, "ControllerPid.action raised %r" % (ex,))
                    p.outcome("raised")
                    continue
                post = rig.snap()
                if len(ev) == 3:            # limits changed in the parm share; nothing is computed until the next update
                    if post[9] == pre[9]:
                        continue            # same limits: no new state
                    p.outcome("limits retuned")
                    k = canon(post, was_eval, mprsp)
                    if k not in seen:
                        seen[k] = h2
                        p.nontrivial((fr(cfg[:4]), k))
                        nxt.append((post, was_eval, h2, mprsp))
                    continue
                ovmin, ovmax, esmin, esmax = pre[9]      # the limits configured when this update is evaluated
                inp, rate, rsp, lapse = ev
                dstamp = post[8] - pre[8]
                lap = dstamp if dstamp > 0 else 0.0          # NaN (inf - inf), 0 and negative -> not evaluated
                mprsp2 = model_setpoint(mprsp, ev, dstamp)
                if not lap > 0:
                    evaluated = was_eval
                    p.outcome("held (zero lapse)")
                else:
                    evaluated = True
                    prsp, pe, es0 = pre[0], pre[1], pre[3]
                    changed = abs(rsp - prsp) > DRSP
                    prsp2, e2, es2, out2 = post[0], post[1], post[3], post[4]
                    stop = False
                    # ---- limits (NaN fails both comparisons)
                    if not (ovmin <= out2 <= ovmax):
                        bad("limits|output %s" % ("is NaN" if out2 != out2 else "outside [ovmin, ovmax]"), h2,
                            "output %r not within [%r, %r]" % (out2, ovmin, ovmax), got=dict(output=out2, errorSum=es2, error=e2))
                        stop = True
                    if not (esmin <= es2 <= esmax):
                        bad("limits|error sum %s" % ("is NaN" if es2 != es2 else "outside [esmin, esmax]"), h2,
                            "error sum %r not within [%r, %r]" % (es2, esmin, esmax), got=dict(output=out2, errorSum=es2, error=e2))
                        stop = True
                    # ---- prior set point follows the threshold rule
                    want_prsp = rsp if changed else prsp
                    if not eq(prsp2, want_prsp):
                        bad("setpoint|prior set point %s" % ("not taken on a change above the threshold" if changed else "moved by a change within the threshold"), h2,
                            "set point %r after prior %r (threshold %r): prior set point became %r, expected %r" % (rsp, prsp, DRSP, prsp2, want_prsp),
                            got=dict(prsp=prsp2))
                        stop = True
                    # ---- error is the shortest wrapped difference (to the set point in force; below the threshold either reading is accepted)
                    cands = [rsp] if changed else [prsp, rsp]
                    verdicts = [shortest_ok(e2, inp - r, wrap) for r in cands]
                    if False in verdicts and True not in verdicts and None not in verdicts:
                        bad("error|not the shortest wrapped difference", h2,
                            "error %r for input %r, set point %r (prior %r), wrap %r" % (e2, inp, rsp, prsp, wrap), got=dict(error=e2))
                        stop = True
                    elif True in verdicts and wrap and abs(inp - cands[verdicts.index(True)]) >= abs(wrap):
                        p.outcome("error wrapped" if abs(e2) < abs(wrap) else "error at exactly half a turn (+-wrap)")
                    # ---- a change above the threshold resets the integrator: the result must not depend on the old error sum
                    #      `acted` = the reference's view: the set point differs from the last one an evaluated update acted on (a change first
                    #      seen on a zero-lapse update is still pending); `changed` = the controller's own prior-set-point share
                    acted = abs(rsp - mprsp) > DRSP
                    if (changed or acted) and es0 != 0.0 and not stop:
                        forced = list(pre)
                        forced[3] = 0.0
                        rig.restore(tuple(forced))
                        rig.update(ev)
                        es3 = rig.c.es.value
                        p.evaluations += 1
                        if not eq(es3, es2):
                            bad("reset|integrator not reset by a set point change above the threshold", h2,
                                "set point %r -> %r with error sum %r before: error sum after is %r, but %r when the integrator is zeroed first"
                                % (mprsp, rsp, es0, es2, es3), got=dict(errorSum=es2, errorSum_from_zero=es3, last_set_point_acted_on=mprsp, prsp_share=prsp))
                            stop = True
                        p.outcome("integrator reset observed")
                        rig.restore(post)
                    cls = "nan->min" if (not finite(e2) and out2 == ovmin) else ("clamped" if out2 in (ovmin, ovmax) else "inside")
                    p.outcome("evaluated: output %s" % cls)
                    if stop:
                        continue            # do not expand a violating state
                k = canon(post, evaluated, mprsp2)
                if k not in seen:
                    seen[k] = h2
                    p.nontrivial((fr(cfg[:4]), k))
                    nxt.append((post, evaluated, h2, mprsp2))
        layer = nxt
    p.states = len(seen)
    # ---- validate snapshot/restore against plain replay: every state's witness history re-run from the primed state,
    #      and the longest ones on a freshly built controller
    items = sorted(seen.items(), key=lambda kv: (len(kv[1]), [tuple(fr(x) for x in e) for e in kv[1]]))
    fresh = items[-2:]
    for k, hist in items:
        rig.restore(rig.initial)
        ev_flag, mm = run_history(rig, hist, m0)
        p.traces += 1
        if canon(rig.snap(), ev_flag, mm) != k:
            raise core.BrokenCheck("replay of %s reached %r, search recorded %r" % (show(cfg, hist), canon(rig.snap(), ev_flag, mm), k))
    for k, hist in fresh:
        r2 = Rig(cfg)
        ev_flag, mm = run_history(r2, hist, m0)
        p.traces += 1
        if canon(r2.snap(), ev_flag, mm) != k:
            raise core.BrokenCheck("fresh replay of %s reached %r, search recorded %r" % (show(cfg, hist), canon(r2.snap(), ev_flag, mm), k))
        if hist:
            p.sample(dict(config=show_cfg(cfg), updates=[list(map(fr, e)) for e in hist],
                          after=dict(zip(("prsp", "error", "errorRate", "errorSum", "output"), map(fr, r2.snap()[:5])))), limit=1)
    return p


def configs(tier):
    full = tier != "quick"
    out = []
    # rate computed from the error (calcRate True): ger unused
    for g in gain_vectors(full):
        for ov in OVLIMS:
            for es in ESLIMS:
                for wrap in WRAPS:
                    out.append(((wrap, True, 1.0, es, g, ov), 3))
    # rate from the rate sensor (calcRate False): er = ger * rate
    gers = (-3.0,) if not full else (1.0, -3.0)
    ovs = (OVLIMS[0], OVLIMS[2])
    eslims = ESLIMS if full else (ESLIMS[0], ESLIMS[2])
    for g in gain_vectors(False):
        for ov in ovs:
            for es in eslims:
                for wrap in WRAPS:
                    for ger in gers:
                        out.append(((wrap, False, ger, es, g, ov), 2 if not full else 3))
    # retune family: the limits in the parm share are changed between updates
    gs = ((1.0, 1.0, 1.0, 1.0), (0.0, 0.0, 0.0, 0.0), (0.0, NAN, 0.0, 0.0)) if not full else gain_vectors(False)
    for g in gs:
        for ov in (OVLIMS[0], OVLIMS[2]):
            for es in (ESLIMS[0], ESLIMS[2]):
                for wrap in ((0.0,) if not full else WRAPS):
                    out.append(((wrap, True, 1.0, es, g, ov), 3, True))
    return out


def tag_job(p, job, start=0):
    """Put the shard identity into the replay record of every violation found from index `start` on."""
    for v in p.violations[start:]:
        if isinstance(v[3], dict):
            v[3].setdefault("job", repr(job))


def replay(path, runner, pid):
    """./vcheck C46 --replay <file>: re-run the shard that produced the stored violation; exit 1 if the same key fails again."""
    import json
    rec = json.load(open(path))
    if not isinstance(rec.get("replay"), dict) or "job" not in rec["replay"]:
        print("replay record carries no shard identity; run the check again to regenerate it")
        return 2
    job = eval(rec["replay"]["job"], {"__builtins__": {}, "inf": float("inf"), "nan": float("nan")})
    p = runner(job)
    hit = False
    for g, ex, what, rep in p.violations:
        same = "%s|%s" % (g, ex) == rec["key"]
        hit = hit or same
        print("%s %s|%s\n  %s" % ("REPRODUCED" if same else "other violation in the same shard:", g, ex, what))
    if not hit:
        print("not reproduced: %s" % rec["key"])
    print("REPLAY property=%s reproduced=%s shard_evaluations=%d" % (pid, hit, p.evaluations))
    return 1 if hit else 0


def run():
    import os
    if os.environ.get("VERIF_REPLAY"):
        return replay(os.environ["VERIF_REPLAY"], work, "C46")
    ck = core.Check("C46", "exploration", META["technique"])
    # reference self-check
    if shortest_ok(-160.0, 200.0, 180.0) is not True or shortest_ok(200.0, 200.0, 180.0) is not False or shortest_ok(20.0, 200.0, 180.0) is not False \
            or shortest_ok(-199.0, -199.0, 0.0) is not True or shortest_ok(NAN, INF, 180.0) is not None or shortest_ok(NAN, 1.0, 180.0) is not False or shortest_ok(180.0, -180.0, 180.0) is not True:
        raise core.BrokenCheck("shortest-wrapped-difference reference fails its self-check")
    jobs = [(c[0], c[1], core.TIER) + tuple(c[2:]) for c in configs(core.TIER)]
    ck.merge(core.pmap(work, jobs, chunksize=1))
    ck.coverage_extra["configurations"] = len(jobs)
    ck.assumptions = [
        "limits are required after every update the controller evaluates (positive lapse); the construction/restart value 0.0 of output and error sum "
        "and zero-lapse updates (which return before computing anything) are not judged, so limits that exclude 0 are satisfied from the first evaluated update on",
        "a NaN output or error sum is a violation (NaN is inside no interval); limits are ordered pairs of finite or infinite floats",
        "a set point whose distance to the prior set point is not greater than drsp (including NaN distance) is not a change: the error may then be measured "
        "against the prior set point (what the code does to suppress noise) or the new one",
        "shortest wrapped difference is judged only when input - set point is finite; |error| <= wrap and error - difference is a whole number of 2*wrap turns (1e-9), "
        "computed with exact Fractions and not with ioflo's wrap2; at exactly half a turn both +wrap and -wrap pass, 0 does not",
        "zero-lapse and negative-lapse updates (second action in one store stamp, stamp set back) compute nothing; a set point change first seen on such an update "
        "must still reset the integrator when it is acted on: the reference remembers the last set point an evaluated update acted on, independently of the prsp share",
        "integrator reset is judged differentially: the update is repeated from the same state with errorSum forced to 0.0 and must give the same error sum",
        "sequences are merged when prior set point, prior error and error sum (and 'store stamp is infinite') coincide: output, error rate and elapsed are not fed back; "
        "every recorded state is re-reached by plain replay of its witness history, the longest two on a freshly built controller",
        "limits can be retuned at run time through the parm share (parm.update / FloScript put): an evaluated update must respect the limits in the share when it runs; "
        "the values already in the output / error-sum shares are not re-clamped by the retune itself and are not judged until the next evaluated update",
        "controller created by Act.resolve (ioinits group/output/input/rate/rsp/parms) in a resolved house; primed as on the first tick: stamp 0, frame.enter (restart act), one recur",
    ]
    return ck.finish(
        rule="configurations = wrap {0,180} x error-sum limits %r x output limits x gain vectors (gff,gpe,gde,gie) x rate mode; calcRate True: %d gain vectors x 4 output limits, "
             "sequences of <= 3 updates, lapse %s; calcRate False: 7 gain vectors x 2 output limits x error-sum limits (quick: [-5,5] and [1,2] only) x ger %s, sequences of <= %d updates, lapse {0.125, 1} x sensed rate %s. "
             "update = input x set point over %r (plus the half-turn pairs (270,90) (630,90) (0,-180) (-90,90) (-450,90) and the far pairs (80,720) (1000,0) when wrap = 180) x lapse (x rate), plus zero-lapse updates with every set point value and negative-lapse updates (set point 0, 1, 200). retune family (calcRate True, %s): the same with input/set point over %s plus the operations 'set output limits to [-5,5] / [30,40] / the constructed pair' "
             "and 'set error-sum limits to [-1,1] / [3,4] / the constructed pair' between updates, <= 3 operations. evaluations = real controller updates judged; states = distinct fed-back states summed over configurations."
             % (ESLIMS, len(gain_vectors(core.TIER != "quick")), "{0.125, 1}" if core.TIER == "quick" else "{0.125, 1, inf}",
                "{-3}" if core.TIER == "quick" else "{1,-3}", 2 if core.TIER == "quick" else 3,
                "{-1, 0.05, inf, nan}" if core.TIER == "quick" else "{0, -1, 0.05, inf, nan}", VALUES,
                "wrap 0, 3 gain vectors, 2x2 limits" if core.TIER == "quick" else "both wraps, 7 gain vectors, 2x2 limits",
                RETUNE_VALUES if core.TIER == "quick" else VALUES),
        exhaustive=True)


if __name__ == "__main__":
    core.main(run)
