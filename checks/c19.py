"""C19 share stamps, fields and decks follow their documented rules.  Engine B (seq): explicit-state BFS over
operation histories on a fresh real Store + Share (replayed from the history) against a reference model."""
META = dict(
    engine="seq", level="model_checking",
    technique="explicit-state, level-synchronous BFS over Share/Deck/Store-time operation histories, replay-from-history on fresh real objects, "
              "canonical-state dedupe (time-translation invariant), reference model compared after every step",
    text="All interleavings, to depth 4 (quick) / 6 (thorough) with at most 2 / 3 queued deck elements, of value assignment, update / change / create in keyword, pair-list and dict form, item assignment and "
         "deletion, pop / popitem / clear / setdefault (absent field, present field, present field holding None) / insert, every way of adding a field (incl. positional dict / odict / Share arguments) under an invalid name (leading underscore, leading digit, "
         "empty, trailing newline, hyphen, space, name of an existing Data attribute), stampNow, store time advance, detaching and re-attaching the store, and deck "
         "push / pull / gulp(None) / gulp(x) / spew with truthy and falsy elements (0, 0.0, False, '', (), [] -- compared by type and value).  After every transition the real share (ordered fields incl. the raw attribute dict, stamp, deck, "
         "store link, store time) must equal the model and the call's result or exception must match; on every new state ~55 read-only views (the field views once per distinct fields/stamp/store combination, the deck views on every state) (keys, "
         "values, items, iteration, len, in, [], get, fetch, has_key, value, sift, copy, deck list) are compared.  Dedupe on (fields, stamp age, deck, attached).",
    note="Whether an invalid field name is refused by raising or by silently doing nothing is not compared (only that nothing changes); pushing None "
         "onto the deck is not part of the alphabet (the statement's spew clause presumes gulp's None filter); Share.reorder is outside the statement.",
)
import collections

from mc import core

ANY = ("<any>",)
SELF = ("<the share>",)
OK = ("ok", ANY)


def freeze(v):
    if isinstance(v, (list, tuple)):
        return tuple(freeze(x) for x in v)
    if isinstance(v, dict):
        return tuple((freeze(k), freeze(x)) for k, x in v.items())
    return v


_CODE = {}


def run_text(text, ns):
    c = _CODE.get(text)
    if c is None:
        try:
            c = (compile(text, "<op>", "eval"), True)
        except SyntaxError:
            c = (compile(text, "<op>", "exec"), False)
        _CODE[text] = c
    try:
        if c[1]:
            return ("ok", eval(c[0], ns))
        exec(c[0], ns)
        return ("ok", None)
    except Exception as ex:
        return ("exc", type(ex).__name__)


def matches(got, exp, ns):
    if exp[0] == "exc":
        return got[0] == "exc" and (exp[1] is ANY or got[1] == exp[1])
    if got[0] != "ok":
        return False
    if exp[1] is ANY:
        return True
    if exp[1] is SELF:
        return got[1] is ns["sh"]
    return strict_eq(got[1], exp[1])


def strict_eq(a, b):
    """equality that tells 0, 0.0 and False apart (sequence kind list/tuple is not compared at the top levels the
    model builds itself; deck elements go through typed())"""
    if isinstance(a, (list, tuple)) and isinstance(b, (list, tuple)):
        return len(a) == len(b) and all(strict_eq(x, y) for x, y in zip(a, b))
    if isinstance(a, dict) and isinstance(b, dict):
        return strict_eq(list(a.items()), list(b.items()))
    return type(a) is type(b) and a == b


def typed(x):
    """deck element as (type name, repr): 0 / 0.0 / False / '' / () / [] are six different elements"""
    return (type(x).__name__, repr(x))


def show(r):
    if r[0] == "exc":
        return "raises " + ("something" if r[1] is ANY else r[1])
    return "anything" if r[1] is ANY else ("the share" if r[1] is SELF else repr(r[1]))


# ------------------------------------------------------------------ model
# state = (fields, stamp, deck, attached, now); fields = tuple of (name, value) in insertion order

INVALID = [("_p", "leading underscore"), ("1a", "leading digit"), ("", "empty"), ("w\n", "trailing newline"),
           ("pan-speed", "hyphen"), ("with space", "space"),
           ("_show", "name of an existing Data attribute")]
INIT = "Store.Clear(); s = Store(stamp=0.0); sh = s.create('x')"
ST0 = ((), None, (), True, 0.0)


def has(f, k):
    return any(a == k for a, _ in f)


def val(f, k):
    for a, b in f:
        if a == k:
            return b
    raise KeyError(k)


def put(f, k, v):
    if has(f, k):
        return tuple((a, v) if a == k else (a, b) for a, b in f)
    return f + ((k, v),)


def rm(f, k):
    return tuple(x for x in f if x[0] != k)


def stamped(st, f):
    """fields f written by a stamping operation"""
    _, _, deck, att, now = st
    return (f, now if att else None, deck, att, now)


def with_fields(st, f):
    return (f,) + st[1:]


def build_ops():
    ops = []          # (text, group name, model fn st -> (st2, expected result))

    def op(text, name, fn):
        ops.append((text, name, fn))

    def m_update(pairs, stamp):
        def f(st):
            fl = st[0]
            for k, v in pairs:
                fl = put(fl, k, v)
            return (stamped(st, fl) if stamp else with_fields(st, fl)), ("ok", SELF)
        return f

    def m_create(pairs):
        def f(st):
            fl = st[0]
            new = False
            for k, v in pairs:
                if not has(fl, k):
                    fl = put(fl, k, v)
                    new = True
            return (stamped(st, fl) if new else st), ("ok", SELF)
        return f

    for v in (1, 2):
        op("sh.value = %d" % v, "value=", (lambda v: lambda st: (stamped(st, put(st[0], "value", v)), OK))(v))
    bulk = [[("v", 1)], [("v", 2)], [("w", 1)], [("v", 1), ("w", 2)]]
    for pairs in bulk:
        kw = ", ".join("%s=%r" % kv for kv in pairs)
        op("sh.update(%s)" % kw, "update", m_update(pairs, True))
        op("sh.change(%s)" % kw, "change", m_update(pairs, False))
        op("sh.create(%s)" % kw, "create", m_create(pairs))
    for pairs in ([("w", 1), ("v", 2)], [("value", 2)]):
        for form, text in (("pairs", repr(pairs)), ("dict", "{%s}" % ", ".join("%r: %r" % kv for kv in pairs)),
                           ("odict", "odict(%r)" % (pairs,))):
            op("sh.update(%s)" % text, "update", m_update(pairs, True))
            op("sh.change(%s)" % text, "change", m_update(pairs, False))
            op("sh.create(%s)" % text, "create", m_create(pairs))
    op("o = Share(data=odict([('w', 1), ('v', 2)])); sh.update(o)", "update",
       lambda st: (m_update([("w", 1), ("v", 2)], True)(st)[0], OK))           # two statements: no result to compare
    op("o = Share(data=odict([('w', 1), ('v', 2)])); sh.change(o)", "change",
       lambda st: (m_update([("w", 1), ("v", 2)], False)(st)[0], OK))
    # positional and keyword parts in one call: positional arguments in order first, keywords after them
    for meth, stamp in (("update", True), ("change", False)):
        op("sh.%s({'w': 1}, v=2)" % meth, meth, m_update([("w", 1), ("v", 2)], stamp))
        op("sh.%s([('v', 1)], v=2)" % meth, meth, m_update([("v", 1), ("v", 2)], stamp))
        op("sh.%s(odict([('w', 2)]), [('v', 1)], w=1)" % meth, meth, m_update([("w", 2), ("v", 1), ("w", 1)], stamp))
    op("sh.create({'w': 1}, v=2)", "create", m_create([("w", 1), ("v", 2)]))
    op("sh.create(odict([('w', 2)]), [('v', 1)], w=1)", "create", m_create([("w", 2), ("v", 1), ("w", 1)]))
    # one create call naming the same field twice with different values: the first value stays, also against the later one
    op("sh.create(odict([('w', 1)]), w=2)", "create", m_create([("w", 1), ("w", 2)]))
    op("sh.create([('w', 2), ('w', 1)])", "create", m_create([("w", 2), ("w", 1)]))
    op("sh.create({'v': 2}, [('v', 1)], v=1)", "create", m_create([("v", 2), ("v", 1), ("v", 1)]))
    for k, v in (("v", 1), ("v", 2), ("w", 1)):
        op("sh[%r] = %r" % (k, v), "[]=", (lambda k, v: lambda st: (with_fields(st, put(st[0], k, v)), OK))(k, v))
    for k in ("v", "w", "value"):
        op("del sh[%r]" % k, "del[]",
           (lambda k: lambda st: (with_fields(st, rm(st[0], k)), OK) if has(st[0], k) else (st, ("exc", "KeyError")))(k))
    op("sh.pop('v')", "pop",
       lambda st: (with_fields(st, rm(st[0], "v")), ("ok", val(st[0], "v"))) if has(st[0], "v") else (st, ("exc", "KeyError")))
    op("sh.pop('w', 'D')", "pop",
       lambda st: (with_fields(st, rm(st[0], "w")), ("ok", val(st[0], "w"))) if has(st[0], "w") else (st, ("ok", "D")))
    op("sh.pop('v', 1)", "pop",      # the default may be the very object stored in the field
       lambda st: (with_fields(st, rm(st[0], "v")), ("ok", val(st[0], "v"))) if has(st[0], "v") else (st, ("ok", 1)))
    op("sh.popitem()", "popitem",
       lambda st: (with_fields(st, st[0][:-1]), ("ok", st[0][-1])) if st[0] else (st, ("exc", "KeyError")))
    op("sh.clear()", "clear", lambda st: (with_fields(st, ()), OK))
    op("sh.setdefault('v', 2)", "setdefault",
       lambda st: (st, ("ok", val(st[0], "v"))) if has(st[0], "v") else (with_fields(st, put(st[0], "v", 2)), ("ok", 2)))
    op("sh.setdefault('w')", "setdefault",
       lambda st: (st, ("ok", val(st[0], "w"))) if has(st[0], "w") else (with_fields(st, put(st[0], "w", None)), ("ok", None)))
    op("sh.setdefault('w', 2)", "setdefault",      # after sh.setdefault('w') the field exists and holds None: it must stay None
       lambda st: (st, ("ok", val(st[0], "w"))) if has(st[0], "w") else (with_fields(st, put(st[0], "w", 2)), ("ok", 2)))
    op("sh.insert(0, 'w', 1)", "insert",
       lambda st: (st, ("exc", "KeyError")) if has(st[0], "w") else (with_fields(st, (("w", 1),) + st[0]), OK))
    # stamps, time, store link
    op("sh.stampNow()", "stampNow", lambda st: ((st[0], st[4] if st[3] else None) + st[2:], ("ok", st[4] if st[3] else None)))
    op("s.advanceStamp(0.25)", "advanceStamp", lambda st: (st[:4] + (st[4] + 0.25,), OK))
    op("s.changeStamp(s.stamp + 0.25)", "changeStamp", lambda st: (st[:4] + (st[4] + 0.25,), OK))
    op("sh.changeStore(None)", "changeStore", lambda st: (st[:3] + (False,) + st[4:], OK))
    op("sh.changeStore(s)", "changeStore", lambda st: (st[:3] + (True,) + st[4:], OK))
    # deck
    for text, x in (("sh.deck.push(1)", 1), ("sh.deck.push(2)", 2), ("sh.push(1)", 1), ("sh.deck.gulp(1)", 1), ("sh.deck.gulp(2)", 2)):
        op(text, text.split("(")[0].split(".")[-1], (lambda x: lambda st: (st[:2] + (st[2] + (x,),) + st[3:], OK))(x))
    op("sh.deck.gulp(None)", "gulp", lambda st: (st, OK))
    # falsy but legal elements: only None may be dropped by gulp, and they must come back out unchanged in type
    for text, x in (("sh.deck.gulp(0)", 0), ("sh.deck.gulp(0.0)", 0.0), ("sh.deck.gulp(False)", False), ("sh.deck.gulp('')", ""),
                    ("sh.deck.gulp(())", ()), ("sh.deck.gulp([])", []), ("sh.deck.push(0)", 0), ("sh.push('')", "")):
        op(text, text.split("(")[0].split(".")[-1], (lambda x: lambda st: (st[:2] + (st[2] + (x,),) + st[3:], OK))(x))
    for text in ("sh.deck.pull()", "sh.pull()"):
        op(text, "pull", lambda st: (st[:2] + (st[2][1:],) + st[3:], ("ok", st[2][0])) if st[2] else (st, ("exc", "IndexError")))
    op("sh.deck.spew()", "spew", lambda st: (st[:2] + (st[2][1:],) + st[3:], ("ok", st[2][0])) if st[2] else (st, ("ok", None)))
    # invalid field names through every way of adding a field: nothing may change
    for name, label in INVALID:
        r = repr(name)
        for text, path in (("sh.update([(%s, 1)])" % r, "setattr"), ("sh.change([(%s, 1)])" % r, "setattr"),
                           ("sh.create([(%s, 1)])" % r, "setattr"), ("sh[%s] = 1" % r, "setattr"),
                           ("setattr(sh.data, %s, 1)" % r, "setattr"),
                           ("sh.setdefault(%s, 1)" % r, "setdefault"), ("sh.insert(0, %s, 1)" % r, "insert")):
            if name == "_show":      # one defect whatever the way in: the name resolves on the Data object already
                grp = "any way of adding a field: " + label
            else:
                grp = "field added through %s" % path + (": " + label if path == "setattr" else "")
            if label in ("hyphen", "space") and not text.startswith(("sh.update(", "sh[")):
                continue                                             # the two later names: pair-list update and []= only
            op(text, "invalid:" + grp, lambda st: (st, None))        # raising or ignoring: both fine
        # the same name inside a positional mapping (dict / odict / another Share), alone and ahead of a valid field
        for text in ("sh.update({%s: 1})" % r, "sh.change({%s: 1})" % r, "sh.update(odict([(%s, 1)]))" % r,
                     "sh.change(odict([(%s, 1)]))" % r, "sh.create({%s: 1})" % r,
                     "o = Share(); o.data.__dict__[%s] = 1; sh.change(o)" % r,
                     "sh.update({%s: 1, 'v': 2})" % r):
            if name == "_show":
                grp = "any way of adding a field: " + label
            else:
                grp = "field added through a positional mapping: " + label
            op(text, "invalid:" + grp, lambda st: (st, None))
    return ops


OPS = build_ops()
FALSY_ADDERS = {"sh.deck.gulp(0)", "sh.deck.gulp(0.0)", "sh.deck.gulp(False)", "sh.deck.gulp('')", "sh.deck.gulp(())",
                "sh.deck.gulp([])", "sh.deck.push(0)", "sh.push('')"}
FALSY_ONLY_INTO_EMPTY = core.TIER == "quick"
DECKCAP = 2 if core.TIER == "quick" else 3     # 8 element values ^ deck length dominates the state space; FIFO order shows with 2


def observations(st, full=True):
    f, stamp, deck, att, now = st
    if not full:          # same fields/stamp/store as a state already viewed: only the deck views can differ
        return [("list(sh.deck)", ("ok", list(deck))), ("len(sh.deck)", ("ok", len(deck))), ("bool(sh.deck)", ("ok", bool(deck)))]
    keys = [k for k, _ in f]
    vals = [v for _, v in f]
    obs = [("sh.stamp", ("ok", stamp)), ("s.stamp", ("ok", now)), ("sh.value", ("ok", val(f, "value") if has(f, "value") else None)),
           ("list(sh.keys())", ("ok", keys)), ("list(sh)", ("ok", keys)), ("list(sh.iterkeys())", ("ok", keys)),
           ("list(sh.values())", ("ok", vals)), ("list(sh.itervalues())", ("ok", vals)),
           ("list(sh.items())", ("ok", list(f))), ("list(sh.iteritems())", ("ok", list(f))),
           ("len(sh)", ("ok", len(f))), ("list(sh.copy().items())", ("ok", list(f))),
           ("list(sh.copyDataDict().items())", ("ok", list(f))), ("list(sh.sift().items())", ("ok", list(f))),
           ("list(sh.deck)", ("ok", list(deck))), ("len(sh.deck)", ("ok", len(deck))), ("bool(sh.deck)", ("ok", bool(deck))),
           ("sh.store is (s if %r else None)" % att, ("ok", True)), ("repr(sh)", OK), ("sh.show()", OK)]
    for k in ("value", "v", "w", "_p", "zz"):
        p = has(f, k)
        v = val(f, k) if p else None
        obs += [("%r in sh" % k, ("ok", p)), ("sh[%r]" % k, ("ok", v) if p else ("exc", "KeyError")),
                ("sh.get(%r)" % k, ("ok", v)), ("sh.get(%r, 'D')" % k, ("ok", v if p else "D")),
                ("sh.fetch(%r, 'D')" % k, ("ok", v if p else "D")), ("sh.has_key(%r)" % k, ("ok", p))]
    for fields in (["w", "v"], ["v"]):
        if all(has(f, k) for k in fields):
            obs.append(("list(sh.sift(%r).items())" % (fields,), ("ok", [(k, val(f, k)) for k in fields])))
        else:
            obs.append(("list(sh.sift(%r).items())" % (fields,), ("exc", ANY)))
    return obs


# ------------------------------------------------------------------ real side

def dump(ns):
    sh, s = ns["sh"], ns["s"]
    d = sh.data.__dict__
    return (tuple((k, dict.__getitem__(d, k)) for k in d._keys),                       # ordered fields
            tuple(sorted((repr(k), repr(v)) for k, v in dict.items(d))),               # raw attribute dict
            sh.stamp, tuple(typed(x) for x in sh.deck), sh.store is s, s.stamp)


def expdump(st):
    f, stamp, deck, att, now = st
    return (tuple(f), tuple(sorted((repr(k), repr(v)) for k, v in f)), stamp, tuple(typed(x) for x in deck), att, now)


def canon(ns):
    d = dump(ns)
    age = None if d[2] is None else d[5] - d[2]
    return (d[0], d[1], age, d[3], d[4])


def fresh(mods):
    ns = dict(Store=mods.Store, Share=mods.Share, odict=mods.odict)
    exec(INIT, ns)
    return ns


def replay(mods, hist):
    ns = fresh(mods)
    for i in hist:
        run_text(OPS[i][0], ns)
    return ns


def texts(hist):
    return [OPS[i][0] for i in hist]


def observe(part, ns, st, hist, full=True):
    before = dump(ns)
    where = "; ".join(texts(hist)) or "(new share)"
    for text, exp in observations(st, full):
        got = run_text(text, ns)
        part.evaluations += 1
        if not matches(got, exp, ns):
            name = text
            for k in ("'value'", "'v'", "'w'", "'_p'", "'zz'"):
                name = name.replace(k, "K")
            part.violation("observe %s|%s" % (name, "raises " + got[1] if got[0] == "exc" else "wrong result"),
                           "[%s] %s" % (where, text),
                           "after [%s] the expression %s gives %s, model: %s" % (where, text, show(got), show(exp)),
                           dict(init=INIT, history=texts(hist), observe=text, got=show(got), expected=show(exp)))
    if dump(ns) != before:
        part.violation("observe|read-only views changed the share", "[%s]" % where, "read-only views changed the share after [%s]" % where,
                       dict(init=INIT, history=texts(hist)))


def expand(arg):
    """one BFS level shard: expand the given states by every operation"""
    states, = arg
    core.use_repo()
    from ioflo.base import storing
    part = core.Part()
    new = []                                   # (canon, history, model state) in discovery order
    local = set()
    for hist, st in states:
        for i, (text, name, model) in enumerate(OPS):
            if len(st[2]) >= DECKCAP and name in ("push", "gulp") and text != "sh.deck.gulp(None)":
                continue                       # stated bound: the deck holds at most DECKCAP elements
            if FALSY_ONLY_INTO_EMPTY and st[2] and text in FALSY_ADDERS:
                continue                       # quick tier: a falsy element is only queued into an empty deck
            if st[2] and name.startswith("invalid:"):
                continue                       # invalid-name attempts (35 self loops) are explored with an empty deck only
            ns = replay(storing, hist)
            got = run_text(text, ns)
            st2, exp = model(st)
            h2 = hist + (i,)
            part.transitions += 1
            part.traces += 1
            part.evaluations += 1
            part.outcome("%s:%s" % (name.split(":")[0], "ok" if got[0] == "ok" else got[1]))
            try:
                gd = dump(ns)
            except Exception as ex:
                gd = ("broken", type(ex).__name__)
            where = "; ".join(texts(hist)) or "(new share)"
            if gd != expdump(st2):
                if name.startswith("invalid:"):
                    grp = "invalid field name accepted|%s" % name[8:]
                else:
                    e = expdump(st2)
                    facet = "fields" if gd[:2] != e[:2] else "stamp" if gd[2] != e[2] else "deck" if gd[3] != e[3] else "store/time"
                    grp = "%s|%s differ" % (name, facet)
                part.violation(grp, "; ".join(texts(h2)),
                               "after [%s] then %s: share is %r, model: %r" % (where, text, gd, expdump(st2)),
                               dict(init=INIT, history=texts(hist), op=text, got_state=gd, expected_state=expdump(st2),
                                    state_layout="(ordered fields, raw Data.__dict__ items, share stamp, deck, store attached, store stamp)"))
                continue
            if exp is not None and not matches(got, exp, ns):
                part.violation("%s|%s" % (name, "raises " + got[1] if got[0] == "exc" else
                                          ("no " + exp[1] if exp[0] == "exc" and exp[1] is not ANY else "wrong result")),
                               "; ".join(texts(h2)),
                               "after [%s] the call %s %s, model: %s" % (where, text,
                                                                        show(got) if got[0] == "exc" else "returns " + show(got), show(exp)),
                               dict(init=INIT, history=texts(hist), op=text, got=show(got), expected=show(exp)))
                continue
            k = canon(ns)
            if k not in local:
                local.add(k)
                new.append((k, h2, st2))
    return part, new


def observe_shard(arg):
    states, = arg
    core.use_repo()
    from ioflo.base import storing
    part = core.Part()
    for hist, st, full in states:
        ns = replay(storing, hist)
        observe(part, ns, st, hist, full)
    return part


FUNCS = {}


def _pool_call(arg):
    name, payload = arg
    try:
        return ("ok", FUNCS[name](payload))
    except BaseException as ex:      # harness error inside a worker
        import traceback
        return ("broken", "%r\n%s" % (ex, traceback.format_exc()))


class Workers:
    """One pool of forked workers kept for all BFS levels (core.pmap forks a new pool per call, and a
    freshly forked worker is slow until its pages have been copied)."""

    def __init__(self):
        self.pool = None
        if core.NPROC > 1:
            import multiprocessing
            self.pool = multiprocessing.get_context("fork").Pool(core.NPROC)

    def map(self, name, items):
        items = [(name, it) for it in items]
        if self.pool is None or len(items) <= 1:
            res = [_pool_call(it) for it in items]
        else:
            res = self.pool.map(_pool_call, items, 1)
        for tag, val in res:
            if tag != "ok":
                self.close()
                raise core.BrokenCheck("worker failed: " + val)
        return [val for _, val in res]

    def close(self):
        if self.pool is not None:
            self.pool.terminate()
            self.pool = None


def chunks(lst, n):
    n = max(1, min(n, len(lst)))
    size = (len(lst) + n - 1) // n
    return [lst[i:i + size] for i in range(0, len(lst), size)]


FUNCS.update(expand=expand, observe=observe_shard)


def run():
    ck = core.Check("C19", "model_checking", META["technique"])
    depth = 4 if core.TIER == "quick" else 6
    core.use_repo()
    from ioflo.base import storing
    ns = fresh(storing)
    if dump(ns) != expdump(ST0):
        raise core.BrokenCheck("fresh share %r is not the model's initial state %r" % (dump(ns), expdump(ST0)))
    seen = {canon(ns)}
    level = [((), ST0)]
    ck.part.traces += 1
    workers = Workers()
    viewed = set()          # (fields, raw dict, stamp age, attached) combinations whose full view battery has run

    def flag(states):
        out = []
        for h, st in states:
            age = None if st[1] is None else st[4] - st[1]
            key = (repr(st[0]), age, st[3])
            out.append((h, st, key not in viewed))
            viewed.add(key)
        return out
    ck.merge(workers.map("observe", [(flag(level),)]))
    per_level = [1]
    for d in range(depth):
        if not level:
            break
        results = workers.map("expand", [(c,) for c in chunks(level, core.NPROC * 4)])
        nxt = []
        for part, new in results:            # shard order = BFS order: deterministic
            ck.part.merge(part)
            for k, h, st2 in new:
                if k not in seen:
                    seen.add(k)
                    nxt.append((h, st2))
                    ck.part.nontrivial(repr(k))
                    if len(seen) % 997 == 3:
                        ck.part.sample(dict(history=texts(h), state=k))
        if nxt:
            ck.merge(workers.map("observe", [(c,) for c in chunks(flag(nxt), core.NPROC * 2)]))
        per_level.append(len(nxt))
        level = nxt
    workers.close()
    ck.part.states = len(seen)
    ck.coverage_extra.update(depth_bound=depth, new_states_per_level=per_level, operations=len(OPS),
                             fixpoint=not level)
    ck.assumptions = [
        "an operation given an invalid field name must leave the share unchanged; raising versus silently ignoring is not compared",
        "invalid names: leading underscore, leading digit, empty, trailing newline, hyphen, space, and the name of an attribute every Data object already has (_show); "
        "each is tried through every adder including positional dict / odict / Share arguments of update, change and create, alone and ahead of a valid field",
        "update / change / create apply their positional arguments in order and the keyword fields after them (field order and, for update/change, which value wins)",
        "create never overwrites, also within one call: when a call names a not yet existing field twice (mapping + keyword, repeated duple) the first value stays",
        "update/change/create return the share (chaining is relied upon by Store itself); del/pop/popitem of a missing field raise KeyError, pull on an empty deck IndexError",
        "the deck holds at most %d elements (adding operations are not applied beyond that)" % DECKCAP,
        "the invalid-field-name attempts (%d self loops) are applied in every field/stamp/store state but only while the deck is empty (Deck and Data share no code)" % sum(1 for o in OPS if o[1].startswith("invalid:")),
        "quick tier: falsy elements (0, 0.0, False, '', (), []) are only queued into an empty deck (falsy-then-truthy orders are covered, "
        "truthy-then-falsy and falsy-falsy only in thorough)",
        "None is never pushed onto the deck (spew's 'None only when empty' presumes gulp's filter)",
        "dedupe uses the stamp's age (store stamp minus share stamp): Share code only copies store.stamp, so behaviour is time-translation invariant",
    ]
    return ck.finish(
        rule="all histories of length <= %d over %d operations (value=, update/change/create x 3 argument forms, []=, del, pop, popitem, clear, setdefault, "
             "insert, 7 invalid names x up to 14 adders (keyword/pair/dict/odict/Share forms), stampNow, advanceStamp, changeStamp, detach/attach, deck push/pull/gulp/spew with truthy and falsy non-None elements), deduped on "
             "(ordered fields, raw dict, stamp age, deck, attached); non-trivial = distinct reachable state" % (depth, len(OPS)),
        exhaustive=True)


if __name__ == "__main__":
    core.main(run)
