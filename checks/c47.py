"""C47 named entities have unique names within their namespace.  Engine B: BFS over creation / Clear /
namespace-switch histories on the real Registrar classes vs a plain reference of namespaces; the collision
loop's random.randint is an enumerated choice point."""
META = dict(
    engine="seq", level="model_checking",
    technique="explicit-state BFS over explicit/automatic creations, registry clears, house and frame-registry switches and framer clones on the real registrar classes vs a reference namespace model; random.randint of the collision loop is a choice point",
    text="Histories over: create House / Store / Tasker / Framer / Logger / Log / Frame with an explicit name (plain names and names matching the automatic "
         "pattern such as Tasker2, Tasker3, Tasker3a) or an automatic name, Clear of each root registry and ClearRegistries, House.assignRegistries of each house, "
         "Framer.assignFrameRegistry, Framer.clone, Framer.prune.  ioflo.base.registering.random is replaced by a harness object, so every answer of the automatic-name collision loop "
         "(letters a/b for up to three draws) is enumerated.  After every operation all registries (class-level, per house, per framer) are compared with a reference "
         "Saturated-suffix family: <Class>1 and <Class>1a .. <Class>1z taken explicitly (Tasker, Log), counter reset by re-entering the house, two automatic creations: names stay fresh.  "
         "model of namespaces: explicit duplicates rejected with nothing changed, automatic names fresh, instances land in the namespace that is current and nowhere else.",
    note="Clear() is read as 'start a fresh class-level namespace' (it rebinds, a house keeps its own registry). A second family builds generated FloScript programs "
         "(framers x frames x clones x logs x houses) through the real Builder and checks that every reachable instance is the one registered under its name.",
)
import io
import itertools
from mc import core

QUICK = core.TIER != "thorough"
MAX_DEPTH = 3 if QUICK else 4
MAX_HOUSES = 2
MAX_FRAMERS = 2
RCAP = 3                      # randint draws enumerated per creation; later draws answer 25 ('z')
KEYS = ("house", "store", "tasker", "log", "frame")
EXPL = dict(
    House=[None, "h", "House2"],
    Store=[None, "x", "Store2"],
    Tasker=[None, "x", "Tasker2", "Tasker3", "Tasker3a", "Framer2"],
    Framer=[None, "x", "Framer2", "Tasker2"],
    Logger=[None, "x"],
    Log=[None, "x", "Log2"],
    Frame=[None, "x", "Frame2", "Frame3", "Frame3a"],
)
FAMILY = dict(House="house", Store="store", Tasker="tasker", Framer="tasker", Logger="tasker", Log="log", Frame="frame")


class ReplayRandom:
    """Stands in for the `random` module inside ioflo.base.registering."""

    def __init__(self, answers=(), chooser=None):
        self.answers = tuple(answers)
        self.chooser = chooser
        self.calls = 0

    def randint(self, a, b):
        k = self.calls
        self.calls += 1
        if k < len(self.answers):
            v = self.answers[k]
        elif self.chooser is not None and k < RCAP:
            v = self.chooser.choose(2, "randint#%d" % k)
        else:
            v = 25
        if not (a <= v <= b):
            raise core.BrokenCheck("randint(%r,%r) asked, harness answer %r out of range" % (a, b, v))
        return v


_MODS = []


def mods():
    if not _MODS:
        from ioflo.base import registering, housing, tasking, framing, logging, storing, excepting
        _MODS.append((registering, housing, tasking, framing, logging, storing, excepting))
    return _MODS[0]


def reset():
    registering, housing, tasking, framing, logging, storing, excepting = mods()
    from ioflo.aid.odicting import odict
    housing.House.Clear()
    housing.ClearRegistries()
    framing.Frame.Names = odict()
    framing.Frame.Counter = 0
    for cls in (framing.Framer, logging.Logger):
        for attr in ("Counter", "Names"):
            if attr in cls.__dict__:
                delattr(cls, attr)


class Model:
    def __init__(self):
        self.ns = {("G", k, 0): {} for k in KEYS}
        self.gen = {k: 0 for k in KEYS}
        self.cur = {k: ("G", k, 0) for k in KEYS}
        self.names = []            # inst idx -> name

    def clear(self, key):
        self.gen[key] += 1
        nid = ("G", key, self.gen[key])
        self.ns[nid] = {}
        self.cur[key] = nid

    def add(self, key, name, idx):
        self.ns[self.cur[key]][name] = idx

    def has(self, key, name):
        return name in self.ns[self.cur[key]]


class Run:
    def __init__(self, history, chooser=None):
        registering, housing, tasking, framing, logging, storing, excepting = mods()
        reset()
        self.m = Model()
        self.insts = []            # real objects by idx
        self.kinds = []
        self.houses = []           # inst idx of usable houses
        self.framers = []          # inst idx of framers; parallel: house idx of their store or None
        self.framer_house = {}
        self.diverged = None
        self.last = None
        self.rand = None
        self.chooser = chooser
        for i, op in enumerate(history):
            if self.diverged:
                break
            last = i == len(history) - 1
            # registries of every proper prefix were compared when that prefix was itself a BFS target
            self.step(op, chooser if last else None, compare=last)

    # ---------- bookkeeping
    def reg(self, obj, kind, key, name_expected=None):
        idx = len(self.insts)
        self.insts.append(obj)
        self.kinds.append(kind)
        self.m.names.append(obj.name)
        self.m.add(key, obj.name, idx)
        return idx

    def idx_of(self, obj):
        for i, o in enumerate(self.insts):
            if o is obj:
                return i
        return "unknown<%s %r>" % (type(obj).__name__, getattr(obj, "name", None))

    def contents(self, d):
        return {k: self.idx_of(v) for k, v in d.items()}

    def classes(self):
        registering, housing, tasking, framing, logging, storing, excepting = mods()
        return dict(house=housing.House, store=storing.Store, tasker=tasking.Tasker, log=logging.Log, frame=framing.Frame)

    def real_view(self):
        registering, housing, tasking, framing, logging, storing, excepting = mods()
        cl = self.classes()
        v = {}
        for k in KEYS:
            v["current " + k] = self.contents(cl[k].Names)
        v["current tasker via Framer"] = self.contents(framing.Framer.Names)
        for k in KEYS:                       # which registry object is current (identity, not contents)
            d, owner = cl[k].Names, "class-level"
            for hi in self.houses:
                if k in ("store", "tasker", "log") and d is self.insts[hi].names[k]:
                    owner = "house#%d" % hi
            for fi in self.framers:
                if k == "frame" and d is self.insts[fi].frameNames:
                    owner = "framer#%d" % fi
            v["owner of current " + k] = owner
        for hi in self.houses:
            h = self.insts[hi]
            for k in ("store", "tasker", "log"):
                v["house#%d %s" % (hi, k)] = self.contents(h.names[k])
        for fi in self.framers:
            v["framer#%d frames" % fi] = self.contents(self.insts[fi].frameNames)
        v["instance names"] = [o.name for o in self.insts]
        return v

    def model_view(self):
        m = self.m
        v = {}
        for k in KEYS:
            v["current " + k] = dict(m.ns[m.cur[k]])
        v["current tasker via Framer"] = dict(m.ns[m.cur["tasker"]])
        for k in KEYS:
            c = m.cur[k]
            v["owner of current " + k] = "house#%d" % c[1] if c[0] == "H" else ("framer#%d" % c[1] if c[0] == "F" else "class-level")
        for hi in self.houses:
            for k in ("store", "tasker", "log"):
                v["house#%d %s" % (hi, k)] = dict(m.ns[("H", hi, k)])
        for fi in self.framers:
            v["framer#%d frames" % fi] = dict(m.ns[("F", fi)])
        v["instance names"] = list(m.names)
        return v

    def canon(self):
        registering, housing, tasking, framing, logging, storing, excepting = mods()
        cl = self.classes()

        def desc(d):
            out = []
            for name in sorted(d):
                o = d[name]
                i = self.idx_of(o)
                k = self.kinds[i] if isinstance(i, int) else "?"
                fr = tuple(sorted(o.frameNames)) if k == "Framer" else ()
                out.append((name, k, fr))
            return tuple(out)

        def where(key, d):
            for hi in self.houses:
                if key in ("store", "tasker", "log") and d is self.insts[hi].names[key]:
                    return ("H", self.houses.index(hi))
            for fi in self.framers:
                if d is self.insts[fi].frameNames:
                    return ("F", self.insts[fi].name, self.framer_house.get(fi))
            return ("G",)

        parts = []
        for k in KEYS:
            parts.append((k, where(k, cl[k].Names), desc(cl[k].Names), cl[k].Counter))
        parts.append(("sub", framing.Framer.__dict__.get("Counter"), logging.Logger.__dict__.get("Counter"),
                      "Names" in framing.Framer.__dict__, "Names" in logging.Logger.__dict__))
        for hi in self.houses:
            h = self.insts[hi]
            parts.append(("house", h.name, tuple((k, desc(h.names[k]), h.counters[k]) for k in ("store", "tasker", "log"))))
        return tuple(parts)

    # ---------- one operation on the real classes and on the model
    def step(self, op, chooser=None, compare=True):
        registering, housing, tasking, framing, logging, storing, excepting = mods()
        m = self.m
        kind = op[0]
        self.rand = registering.random = ReplayRandom(op[-1] if kind == "new" else (), chooser)
        exp = "ok"
        got = "ok"
        note = None
        try:
            if kind == "clear":
                key = op[1]
                m.clear(key)
                self.classes()[key].Clear()
            elif kind == "clearall":
                for key in ("store", "tasker", "log"):
                    m.clear(key)
                housing.ClearRegistries()
            elif kind == "assign":
                hi = op[1]
                for key in ("store", "tasker", "log"):
                    m.cur[key] = ("H", hi, key)
                self.insts[hi].assignRegistries()
            elif kind == "prune":
                # Framer.prune() (what the Razer actor calls): the framer dies; its name is released in the CURRENT tasker
                # namespace only if that namespace holds this very instance under the name
                fi = op[1]
                cur = m.ns[m.cur["tasker"]]
                if cur.get(m.names[fi]) == fi:
                    del cur[m.names[fi]]
                self.insts[fi].prune()
            elif kind == "assignframe":
                fi = op[1]
                m.cur["frame"] = ("F", fi)
                self.insts[fi].assignFrameRegistry()
            elif kind == "clone":
                _, fi, name = op
                src = self.insts[fi]
                hi = self.framer_house[fi]
                for key in ("store", "tasker", "log"):
                    m.cur[key] = ("H", hi, key)      # clone() points the registries at the framer's house first
                if m.has("tasker", name):
                    exp = "reject"
                clone = src.clone(name)
                ci = self.reg(clone, "Framer", "tasker")
                self.framers.append(ci)
                self.framer_house[ci] = hi
                m.ns[("F", ci)] = {}
                m.cur["frame"] = ("F", ci)
                src_frames = [(n, i) for n, i in m.ns[("F", fi)].items()]
                for n, _ in src_frames:
                    fr = clone.frameNames.get(n)
                    if fr is None:
                        note = ("clone|frame-missing", "clone %r lacks frame %r" % (name, n))
                        break
                    self.reg(fr, "Frame", "frame")
            elif kind == "new":
                _, cname, name, hi, answers = op
                key = FAMILY[cname]
                if name is not None and m.has(key, name):
                    exp = "reject"
                elif cname == "House" and name is not None and m.has("store", name):
                    exp = "store-collision"
                before = dict(m.ns[m.cur[key]])
                kwa = {}
                if name is not None:
                    kwa["name"] = name
                if cname == "Framer":
                    kwa["store"] = self.insts[hi].store
                klass = dict(House=housing.House, Store=storing.Store, Tasker=tasking.Tasker, Framer=framing.Framer,
                             Logger=logging.Logger, Log=logging.Log, Frame=framing.Frame)[cname]
                store_before = dict(m.ns[m.cur["store"]])
                try:
                    obj = klass(**kwa)
                except excepting.ParameterError:
                    if cname == "House" and exp != "reject":
                        # creation failed after the House registered itself (its Store name was taken): tolerated, sync the zombie
                        z = housing.House.Names.get(name) if name is not None else None
                        if name is None:
                            for zn, zo in housing.House.Names.items():
                                if isinstance(self.idx_of(zo), str):
                                    z = zo
                        if z is not None and isinstance(self.idx_of(z), str):
                            self.reg(z, "HouseZombie", "house")
                        got = "store-collision"
                        if exp == "ok" and name is None:
                            exp = "store-collision"      # automatic house name met a taken store name: outcome not constrained
                    raise
                if name is None and obj.name in before:
                    note = ("new|auto-name-collides", "automatic %s name %r was already in the current %s namespace %r"
                            % (cname, obj.name, key, sorted(before)))
                if name is not None and obj.name != name:
                    note = ("new|name-changed", "%s(name=%r) is named %r" % (cname, name, obj.name))
                idx = self.reg(obj, cname, key)
                if cname == "House":
                    self.houses.append(idx)
                    for k in ("store", "tasker", "log"):
                        m.ns[("H", idx, k)] = {}
                    if obj.store.name in store_before:
                        note = ("new|house-store-collides", "House %r created a Store named %r although the current store namespace had one" % (obj.name, obj.store.name))
                    self.reg(obj.store, "Store", "store")
                if cname == "Framer":
                    self.framers.append(idx)
                    self.framer_house[idx] = hi
                    m.ns[("F", idx)] = {}
            else:
                raise core.BrokenCheck("unknown op %r" % (op,))
        except (excepting.ParameterError, excepting.CloneError) as ex:
            if got == "ok":
                got = "reject"
        except core.BrokenCheck:
            raise
        except core.Nondeterminism:
            raise
        except Exception as ex:
            got = "raises %s: %s" % (type(ex).__name__, ex)
        self.last = (got, exp, self.rand.calls)
        if note:
            self.diverged = note
            return
        if got != exp:
            self.diverged = ("%s|%s-but-reference-%s" % (op_group(op), got.split(":")[0], exp),
                             "%s: ioflo answered %s, reference expects %s" % (op_str(op), got, exp))
            return
        if not compare:
            return
        rv, mv = self.real_view(), self.model_view()
        if rv != mv:
            bad = sorted(k for k in rv if rv[k] != mv.get(k))
            what = "; ".join("%s: ioflo %r, reference %r" % (k, rv[k], mv.get(k)) for k in bad[:3])
            part = bad[0].split(" ")[0] + ("-" + bad[0].split(" ")[-1] if " " in bad[0] else "")
            self.diverged = ("%s|%s|registry-differs:%s" % (op_group(op), got, part), "after %s (%s): %s" % (op_str(op), got, what))


def op_group(op):
    if op[0] == "new":
        return "new %s %s" % (op[1], "auto" if op[2] is None else "explicit")
    if op[0] == "clear":
        return "clear %s" % op[1]
    return op[0]


def op_str(op):
    k = op[0]
    if k == "new":
        _, c, n, hi, ans = op
        s = "%s(%s%s)" % (c, "" if n is None else "name=%r" % n, "" if hi is None else (", " if n is not None else "") + "store=house#%d.store" % hi)
        if ans:
            s += "[randint->%s]" % ",".join(str(a) for a in ans)
        return s
    if k == "clear":
        return "%s.Clear()" % dict(house="House", store="Store", tasker="Tasker", log="Log", frame="Frame")[op[1]]
    if k == "clearall":
        return "ClearRegistries()"
    if k == "assign":
        return "house#%d.assignRegistries()" % op[1]
    if k == "assignframe":
        return "framer#%d.assignFrameRegistry()" % op[1]
    if k == "clone":
        return "framer#%d.clone(%r)" % (op[1], op[2])
    if k == "prune":
        return "framer#%d.prune()" % op[1]
    return repr(op)


def hist_str(h):
    return " ; ".join(op_str(o) for o in h)


def base_ops(run, final=False):
    """final: operations applied at the last BFS layer -- creations and clones only (Clear/assign as the very last
    operation of a history add no information beyond the same operation met one layer earlier)."""
    ops = []
    if len(run.houses) < MAX_HOUSES:
        for n in EXPL["House"]:
            ops.append(("new", "House", n, None, ()))
    for hi in run.houses:
        ops.append(("assign", hi))
    if not final:
        for key in KEYS:
            ops.append(("clear", key))
        ops.append(("clearall",))
    else:
        # a Clear as last operation matters only where it could touch a registry owned by a house or framer
        cl = run.classes()
        for key in ("store", "tasker", "log"):
            if any(cl[key].Names is run.insts[hi].names[key] for hi in run.houses):
                ops.append(("clear", key))
        if any(cl["frame"].Names is run.insts[fi].frameNames for fi in run.framers):
            ops.append(("clear", "frame"))
    for c in ("Tasker", "Log", "Store", "Frame") if QUICK else ("Tasker", "Logger", "Log", "Store", "Frame"):
        for n in EXPL[c]:
            ops.append(("new", c, n, None, ()))
    if run.houses and len(run.framers) < MAX_FRAMERS:
        for hi in sorted(set([run.houses[0], run.houses[-1]])):
            for n in EXPL["Framer"]:
                ops.append(("new", "Framer", n, hi, ()))
    for fi in run.framers:
        ops.append(("prune", fi))
        if not final:
            ops.append(("assignframe", fi))
        if len(run.framers) < MAX_FRAMERS + 1:
            for n in ("c", "x"):
                ops.append(("clone", fi, n))
    return ops


def expand_random(history, op, counters):
    """An automatic creation may consult randint: enumerate every answer sequence (letters a/b, RCAP draws)."""
    if not (op[0] == "new" and op[2] is None):
        return [op]
    found = []

    def trial(ch):
        r = Run(history + [op], chooser=ch)
        counters["trial_runs"] += 1
        return r

    def on_exec(ch, r):
        found.append(tuple(ch.choices))

    core.dfs(trial, bound=None, on_exec=on_exec)
    found = sorted(set(found))
    if len(found) > 1:
        counters["creations_with_random_branching"] += 1
    return [op[:-1] + (ans,) for ans in found]


FOCUS_PRELOAD = [("new", "House", "h", None, ()), ("assign", 0), ("new", "Tasker", "x", None, ()), ("new", "Log", "x", None, ()),
                 ("new", "Framer", "f", 0, ())]
FOCUS_DEPTH = 3 if QUICK else 4


def focused_ops(run, final=False):
    """Second family: house#0 is current and owns a tasker x, a log x and a framer f.  Per-class Clear() / ClearRegistries(),
    re-entering the same house (assignRegistries, Framer.clone), then explicit duplicates and automatic names."""
    ops = []
    for hi in run.houses:
        ops.append(("assign", hi))
    for key in ("store", "tasker", "log", "frame"):
        ops.append(("clear", key))
    ops.append(("clearall",))
    for fi in run.framers[:1]:
        if len(run.framers) < 3:
            for n in ("c", "x"):
                ops.append(("clone", fi, n))
    for c in ("Tasker", "Log", "Store"):
        for n in (None, "x"):
            ops.append(("new", c, n, None, ()))
    if len(run.framers) < 3:
        for n in (None, "x"):
            ops.append(("new", "Framer", n, run.houses[0], ()))
    return ops


# third family: two houses that each own a live framer of the same name (as two houses rearing the same clone name do)
TWIN_PRELOAD = [("new", "House", "h", None, ()), ("new", "House", "g", None, ()), ("assign", 0), ("new", "Framer", "f", 0, ()),
                ("assign", 2), ("new", "Framer", "f", 2, ())]
TWIN_DEPTH = 3 if QUICK else 4


def twin_ops(run, final=False):
    """house#0 and house#2 each hold a framer f; house#2 is current.  Switch houses, prune (raze) either framer, then try
    explicit duplicates of the name in either house."""
    ops = []
    for hi in run.houses:
        ops.append(("assign", hi))
    for fi in run.framers[:2]:
        ops.append(("prune", fi))
    if len(run.framers) < 4:
        for hi in run.houses:
            ops.append(("new", "Framer", "f", hi, ()))
    ops.append(("new", "Tasker", "f", None, ()))
    # the house namespace is global: whichever house's registries are current, a duplicate house name is rejected and
    # automatically named houses are distinct
    if len(run.houses) < 4:
        for n in ("h", "g", None):
            ops.append(("new", "House", n, None, ()))
    return ops


def work(arg):
    family, first = arg
    core.use_repo()
    p = core.Part()
    if family == "gen":
        h0, depth, opsfn = [first], MAX_DEPTH, base_ops
    elif family == "twin":
        h0, depth, opsfn = TWIN_PRELOAD + [first], TWIN_DEPTH - 1, twin_ops
    else:
        h0, depth, opsfn = FOCUS_PRELOAD + [first], FOCUS_DEPTH - 1, focused_ops

    def build(history):
        p.evaluations += 1
        return Run(history)

    def enabled(run, history):
        if run.diverged:
            return []
        out = []
        for op in opsfn(run, final=(len(history) - len(h0) == depth - 1)):
            out.extend(expand_random(history, op, p.notes))
        return out

    def check(run, history):
        p.traces += 1
        if run.diverged:
            group, what = run.diverged
            p.outcome("diverged:" + group)
            p.violation(group, hist_str(history), what,
                        dict(ops=[list(o) for o in history], nops=len(history), readable=hist_str(history), divergence=what,
                             how="start from House.Clear(); ClearRegistries(); Frame.Clear(); apply the calls in order; "
                                 "[randint->k,...] = answers given by registering.random.randint inside that creation (0='a', 1='b')"))
            return True
        got, exp, calls = run.last
        p.outcome("%s:%s%s" % (op_group(history[-1]), got, ":collision-loop x%d" % calls if calls else ""))
        return False

    with core.watchdog(3000):
        res = core.bfs(h0, enabled, build, lambda r: r.canon(), check=check, max_depth=depth)
    p.states = res["states"]
    p.transitions = res["transitions"]
    p.notes["depth_reached=%d" % res["max_depth"]] += 1
    p.sample(dict(first=hist_str(h0), states=res["states"], transitions=res["transitions"]))
    return p


# ---------------------------------------------------------------- generated programs through the Builder

def program(nh, nf, nfr, nclone, nlog, dupframe):
    """FloScript with nh houses x nf framers x nfr frames; framer 0 of each house uses nclone aux clones of a moot
    framer; nlog logs in one logger.  Same names are reused in every house and every framer on purpose."""
    L = []
    for h in range(nh):
        L.append("house h%d" % h)
        if nclone:
            L.append("  framer moo be moot first m0")
            for k in range(nfr):
                L.append("    frame m%d" % k)
                L.append("      print moot")
        for f in range(nf):
            L.append("  framer f%d be active first a0" % f)
            for k in range(nfr):
                L.append("    frame a%d" % k)
                if f == 0 and k == 0:
                    for c in range(nclone):
                        L.append("      aux moo as c%d" % c)
                L.append("      print hello")
        if nlog:
            L.append("  logger lg to /tmp/verif-c47-never-opened")
            for k in range(nlog):
                L.append("    log l%d on never" % k)
                L.append("      loggee framer.f0.state.active as a")
    return "\n".join(L) + "\n"


def build_program(text):
    from ioflo.base import building, housing, framing, tasking, logging, storing
    reset()

    class Mem(io.StringIO):
        name = "verif.flo"

    real_open = getattr(building, "open", open)

    def fake_open(path, *a, **k):
        return Mem(text)

    building.open = fake_open
    try:
        b = building.Builder()
        ok = b.build(fileName="verif.flo", mode=None, metas=[], preloads=[], behaviors=[])
    finally:
        try:
            del building.open
        except AttributeError:
            building.open = real_open
    return ok, b


def chain_program(nroot, depth, style):
    """One house: nroot ordinary framers each use the same chain of `depth` moot framers (m1 clones m2 clones ...), either as
    insular clones (`as mine`) or with the same explicit tag at every level.  Every clone name is generated by ioflo."""
    L = ["house h"]
    for r in range(nroot):
        L += ["  framer r%d be active first a0" % r, "    frame a0",
              "      aux m1 as %s" % ("mine" if style == "mine" else "t1"), "      print root"]
    for k in range(1, depth + 1):
        L += ["  framer m%d be moot first x0" % k, "    frame x0"]
        if k < depth:
            L.append("      aux m%d as %s" % (k + 1, "mine" if style == "mine" else "t%d" % (k + 1)))
        L.append("      print moot")
    return "\n".join(L) + "\n"


def chain_work(params):
    core.use_repo()
    from ioflo.base import framing
    p = core.Part()
    for prm in params:
        nroot, depth, style = prm
        text = chain_program(nroot, depth, style)
        case = "roots=%d depth=%d clones='%s'" % (nroot, depth, "as mine" if style == "mine" else "as t<k>")
        p.evaluations += 1
        p.nontrivial(("chain",) + tuple(prm))
        try:
            with core.watchdog(60):
                ok, b = build_program(text)
        except core.Watchdog:
            raise
        except Exception as ex:
            p.outcome("chain:build-raises")
            p.violation("chain|build-raises %s" % type(ex).__name__, case, "building a plan whose clone names are all generated raised %s: %s" % (type(ex).__name__, "".join(map(str, ex.args)) or ex), dict(program=text))
            continue
        if not ok:
            p.outcome("chain:build-refused")
            p.violation("chain|build-refused", case,
                        "Builder/resolve refused a legal plan in which every clone name is generated by ioflo (a generated framer name collided?)",
                        dict(program=text))
            continue
        problems = []
        for house in b.houses:
            framers = [t for t in house.taskers if isinstance(t, framing.Framer)]
            names = [f.name for f in framers]
            p.notes["chain_framers_checked"] += len(framers)
            if len(set(names)) != len(names):
                problems.append("two framers share a name: %r" % sorted(n for n in set(names) if names.count(n) > 1))
            for f in framers:
                if house.names["tasker"].get(f.name) is not f:
                    problems.append("framer %r is not the instance registered under its name" % f.name)
            want = nroot + depth + nroot * depth
            if len(framers) != want:
                problems.append("%d framers in the house, expected %d (roots + moots + one clone per root and level): %r" % (len(framers), want, sorted(names)))
        p.outcome("chain:ok depth=%d" % depth if not problems else "chain:problem")
        if problems:
            p.violation("chain|" + problems[0].split(":")[0], case, "; ".join(problems[:3]), dict(program=text, problems=problems))
    return p


def rear_program(nbuilt, shared):
    """framer main owns `nbuilt` build-time insular clones of moot worker in frame pool; moots worker and helper can be reared.
    shared: worker's frame additionally uses the plain original aux framer `shared` (one instance used by every clone)."""
    L = ["house h", "  framer main be active first pool", "    frame pool"]
    L += ["      aux worker as mine"] * nbuilt
    L += ["      print pool",
          "  framer worker be moot first w1", "    frame w1"] + (["      aux shared"] if shared else []) + ["      print w",
          "  framer helper be moot first h1", "    frame h1", "      print h"]
    if shared:
        L += ["  framer shared be aux first s1", "    frame s1", "      print s"]
    return "\n".join(L) + "\n"


def rear_work(params):
    """Run-time rearing / razing on top of build-time insular clones: the real Rearer.action and Razer.action bodies are called
    (with a stand-in for the actor's self, which they only use for .store and ._act.frame.outline)."""
    core.use_repo()
    import types
    from ioflo.base import framing, excepting, acting
    from ioflo.base.globaling import AUX
    p = core.Part()
    for nbuilt, shared, seq in params:
        case = "%sbuild-time 'aux worker as mine' x%d then %s" % ("worker uses shared 'aux shared'; " if shared else "", nbuilt, " ".join(seq) or "(nothing)")
        text = rear_program(nbuilt, shared)
        p.evaluations += 1
        p.nontrivial(("rear", nbuilt, shared, seq))
        with core.watchdog(60):
            ok, b = build_program(text)
        if not ok:
            p.violation("rear|build-refused", case, "the plan did not build", dict(program=text))
            continue
        house = b.houses[0]
        reg = house.names["tasker"]
        main = reg["main"]
        pool = main.frameNames["pool"]
        originals = [f for f in house.framers if f.original]
        actor = types.SimpleNamespace(store=house.store, _act=types.SimpleNamespace(frame=types.SimpleNamespace(outline=[]), human="", count=0))
        bad = None

        def live_framers():
            out, todo = [], list(originals) + [a for a in pool.auxes if isinstance(a, framing.Framer)]
            while todo:
                f = todo.pop()
                if any(f is g for g in out):
                    continue
                out.append(f)
                for fr in f.frameNames.values():
                    todo += [a for a in fr.auxes if isinstance(a, framing.Framer)]
            return out

        for step in seq:
            house.assignRegistries()
            if step.startswith("rear-"):
                original = reg[step[5:]]
                before = list(main.auxes.keys())
                nbefore = len(pool.auxes)
                try:
                    acting.Rearer.action(actor, original=original, clone="mine", schedule=AUX, frame=pool, framer=main)
                except excepting.CloneError as ex:
                    bad = ("rear|CloneError", "rearing %s raised CloneError: %s" % (step[5:], "".join(map(str, ex.args))))
                    break
                new = [t for t in main.auxes.keys() if t not in before]
                if len(new) != 1 or len(pool.auxes) != nbefore + 1:
                    bad = ("rear|generated-tag-in-use", "rearing %s did not add exactly one new tag: tags before %r, after %r"
                           % (step[5:], before, list(main.auxes.keys())))
                    break
            else:                       # raze first / last razeable clone in the frame: the real Razer.action
                acting.Razer.action(actor, who=step[5:], frame=pool, framer=main)
            live = live_framers()
            names = [f.name for f in live]
            if len(set(names)) != len(names):
                bad = ("rear|live-framers-share-name", "live framers %r" % sorted(names))
                break
            for f in live:
                if reg.get(f.name) is not f:
                    bad = ("rear|live-framer-not-registered", "after %s live framer %r is not the instance registered under its name in the house" % (step, f.name))
                    break
            if bad:
                break
            if sorted(t for t, a in main.auxes.items() if not a.original) != sorted(a.tag for a in pool.auxes):
                bad = ("rear|auxes-tags-differ", "framer.auxes clone tags %r, clones in the frame %r"
                       % (sorted(t for t, a in main.auxes.items() if not a.original), sorted(a.tag for a in pool.auxes)))
                break
        if not bad:
            # explicit duplicates of the live originals' names must still be rejected in this house
            house.assignRegistries()
            for f in originals:
                try:
                    framing.Framer(name=f.name, store=house.store)
                    bad = ("rear|duplicate-of-live-framer-accepted", "after the sequence Framer(name=%r) was accepted although framer %r of the house is live" % (f.name, f.name))
                    break
                except excepting.ParameterError:
                    pass
        if bad:
            p.outcome("rear:" + bad[0])
            p.violation(bad[0], case, bad[1], dict(program=text, steps=list(seq), built_clones=nbuilt, shared_aux=shared,
                        how="build the program, then per step call acting.Rearer.action(self, original, 'mine', AUX, frame pool, framer main) / "
                            "acting.Razer.action(self, who, frame pool, framer main) with a stand-in self carrying .store and ._act.frame.outline=[]"))
        else:
            p.outcome("rear:ok built=%d%s" % (nbuilt, " shared-aux" if shared else ""))
            p.notes["reared_clones"] += sum(1 for x in seq if x.startswith("rear-"))
    return p


def collide_plans():
    """Plans whose generated clone names <surname>_<tag> coincide with another clone's or framer's name through underscores
    in framer names or tags (plus controls without a coincidence).  (label, text, collides)"""
    def plan(framers, moots):
        L = ["house plant"]
        for name, auxes in framers:
            L += ["  framer %s be active first f0" % name, "    frame f0"] + ["      aux %s as %s" % a for a in auxes] + ["      print act"]
        for name, auxes in moots:
            L += ["  framer %s be moot first m0" % name, "    frame m0"] + ["      aux %s as %s" % a for a in auxes] + ["      print moot"]
        return "\n".join(L) + "\n"
    out = []
    a, b = ("nav", [("pid", "ctl_pid")]), ("nav_ctl", [("pid", "pid")])
    out.append(("nav+ctl_pid / nav_ctl+pid", plan([a, b], [("pid", [])]), True))
    out.append(("nav_ctl+pid / nav+ctl_pid", plan([b, a], [("pid", [])]), True))
    out.append(("nav+ctl_pid / nav_ctl+hold_pid,pid", plan([a, ("nav_ctl", [("pid", "hold_pid"), ("pid", "pid")])], [("pid", [])]), True))
    out.append(("main: mx as x (mx has my as y), my as x_y", plan([("main", [("mx", "x"), ("my", "x_y")])], [("mx", [("my", "y")]), ("my", [])]), True))
    out.append(("main: my as x_y, mx as x (mx has my as y)", plan([("main", [("my", "x_y"), ("mx", "x")])], [("mx", [("my", "y")]), ("my", [])]), True))
    out.append(("framer nav_pid1 beside nav: pid as mine", plan([("nav_pid1", []), ("nav", [("pid", "mine")])], [("pid", [])]), True))
    out.append(("nav: pid as mine beside framer nav_pid1", plan([("nav", [("pid", "mine")]), ("nav_pid1", [])], [("pid", [])]), True))
    out.append(("control: nav+ctl_pid / navctl+pid", plan([a, ("navctl", [("pid", "pid")])], [("pid", [])]), False))
    out.append(("control: main: mx as x (mx has my as y), my as xy", plan([("main", [("mx", "x"), ("my", "xy")])], [("mx", [("my", "y")]), ("my", [])]), False))
    return out


def collide_work(plans):
    core.use_repo()
    from ioflo.base import framing, excepting
    p = core.Part()
    for label, text, collides in plans:
        p.evaluations += 1
        p.nontrivial(("collide", label))
        try:
            with core.watchdog(60):
                ok, b = build_program(text)
        except core.Watchdog:
            raise
        except (excepting.CloneError, excepting.ResolveError, excepting.ParameterError, excepting.ParseError) as ex:
            ok, b = False, None
        if not ok:
            p.outcome("collide:build-rejected")
            if not collides:
                p.violation("collide|control-rejected", label, "a plan without coinciding names was refused", dict(program=text))
            continue
        p.outcome("collide:built")
        problems = []
        for house in b.houses:
            names = [t.name for t in house.taskers]
            for n in sorted(set(names)):
                if names.count(n) > 1:
                    problems.append("%d live framers named %r" % (names.count(n), n))
            for t in house.taskers:
                if house.names["tasker"].get(t.name) is not t:
                    problems.append("live framer %r is not the instance registered under its name" % t.name)
        if problems:
            p.violation("collide|" + ("duplicate-name-accepted" if "live framers named" in problems[0] else "not-registered"), label,
                        "the build was accepted but " + "; ".join(problems[:3]), dict(program=text, problems=problems))
    return p


def program_work(params):
    core.use_repo()
    from ioflo.base import framing, tasking, logging
    p = core.Part()
    for prm in params:
        nh, nf, nfr, nclone, nlog = prm
        text = program(nh, nf, nfr, nclone, nlog, False)
        p.evaluations += 1
        p.nontrivial(prm)
        try:
            with core.watchdog(60):
                ok, b = build_program(text)
        except core.Watchdog:
            raise
        except Exception as ex:
            p.violation("program|build-raises %s" % type(ex).__name__, "params=%r" % (prm,), "build raised %r" % ex, dict(program=text))
            continue
        if not ok:
            p.outcome("program:build-refused")
            p.violation("program|build-refused", "houses=%d framers=%d frames=%d clones=%d logs=%d" % prm,
                        "Builder refused a program whose names are unique per namespace", dict(program=text))
            continue
        problems = []
        ninst = 0
        for house in b.houses:
            seen = {}
            for t in house.taskers:
                ninst += 1
                if house.names["tasker"].get(t.name) is not t:
                    problems.append("house %s: tasker %r is not the instance registered under its name" % (house.name, t.name))
                if t.name in seen:
                    problems.append("house %s: two taskers named %r" % (house.name, t.name))
                seen[t.name] = t
                if isinstance(t, framing.Framer):
                    fseen = {}
                    for fname, fr in t.frameNames.items():
                        ninst += 1
                        if fr.name != fname or fname in fseen:
                            problems.append("framer %s: frame registered as %r is named %r" % (t.name, fname, fr.name))
                        fseen[fname] = fr
                    want = nfr
                    if len(t.frameNames) != want:
                        problems.append("framer %s has %d frames registered, program declares %d" % (t.name, len(t.frameNames), want))
                if isinstance(t, logging.Logger):
                    lseen = set()
                    for lg in t.logs:
                        ninst += 1
                        if house.names["log"].get(lg.name) is not lg or lg.name in lseen:
                            problems.append("house %s: log %r not uniquely registered" % (house.name, lg.name))
                        lseen.add(lg.name)
            nfram = sum(1 for t in house.taskers if isinstance(t, framing.Framer))
            exp_fram = nf + (1 if nclone else 0) + nclone
            if nfram != exp_fram:
                problems.append("house %s has %d framers, expected %d (declared + moot + clones)" % (house.name, nfram, exp_fram))
        p.outcome("program:ok houses=%d" % nh if not problems else "program:problem")
        p.notes["program_instances_checked"] += ninst
        if problems:
            p.violation("program|" + problems[0].split(":")[0].split(" ")[0], "houses=%d framers=%d frames=%d clones=%d logs=%d" % prm,
                        "; ".join(problems[:3]), dict(program=text, problems=problems))
    return p


def run():
    ck = core.Check("C47", "model_checking", META["technique"])
    core.use_repo()
    firsts = []
    probe = Run([])
    counters = core.Part().notes
    for op in base_ops(probe):
        firsts.extend(expand_random([], op, counters))
    import gc
    gc.collect()
    gc.freeze()          # keep forked workers from copying the parent's heap page by page
    preload_part = core.Part()

    def preload_ok(family, preload):
        """The preloads are real operations compared with the reference: a divergence there is a finding about the code
        under test (reported with the step that diverged), and that family is then not explored further."""
        for k in range(1, len(preload) + 1):
            r = Run(preload[:k])
            preload_part.traces += 1
            if r.diverged:
                group, what = r.diverged
                preload_part.outcome("diverged:" + group)
                preload_part.violation(group, hist_str(preload[:k]), "%s family, preload step %d: %s" % (family, k, what),
                                       dict(ops=[list(o) for o in preload[:k]], nops=k, readable=hist_str(preload[:k]), divergence=what, family=family,
                                            how="start from House.Clear(); ClearRegistries(); Frame.Clear(); apply the calls in order"))
                return None
        return r

    items = [("gen", f) for f in firsts]
    ffirsts = []
    pre = preload_ok("focused", FOCUS_PRELOAD)
    if pre is not None:
        for op in focused_ops(pre):
            ffirsts.extend(expand_random(FOCUS_PRELOAD, op, counters))
        items += [("focus", f) for f in ffirsts]
    twin = preload_ok("twin", TWIN_PRELOAD)
    if twin is not None:
        for op in twin_ops(twin):
            items += [("twin", f) for f in expand_random(TWIN_PRELOAD, op, counters)]
    # saturated-suffix family: the automatic name's base and all of its 26 one-letter suffixes are taken (explicitly), the
    # counter is reset by re-entering the house: the automatic name must still be fresh (every step compared with the model)
    import string
    for cls in ("Tasker", "Log"):
        sat = [("new", "House", "h", None, ()), ("assign", 0), ("new", cls, cls + "1", None, ())]
        sat += [("new", cls, cls + "1" + ch, None, ()) for ch in string.ascii_lowercase]
        sat += [("assign", 0), ("new", cls, None, None, ()), ("assign", 0), ("new", cls, None, None, ())]
        preload_ok("saturated-" + cls, sat)
    parts = [preload_part] + core.pmap(work, items, procs=min(core.NPROC, 8) if QUICK else None)
    best = {}
    for si, p in enumerate(parts):
        for v in p.violations:
            n = v[3].get("nops", 99) if isinstance(v[3], dict) else 99
            if v[0] not in best or (n, si) < best[v[0]][0]:
                best[v[0]] = ((n, si), v)
        p.violations = []
    ck.merge(parts)
    ck.part.violations = [best[g][1] for g in sorted(best, key=lambda g: (best[g][0], g))]
    # program family
    grid = []
    for nh in (1, 2):
        for nf in (1, 2, 3):
            for nfr in (1, 2, 3) if QUICK else (1, 2, 3, 6):
                for nclone in (0, 1, 2) if QUICK else (0, 1, 2, 4):
                    for nlog in (0, 1, 2):
                        grid.append((nh, nf, nfr, nclone, nlog))
    chunks = [grid[i::8] for i in range(8)]
    pparts = core.pmap(program_work, chunks, procs=min(core.NPROC, 8))
    # clone chains: simplest first, one shard (a handful of builds)
    chains = [(nroot, depth, style) for depth in ((1, 2, 3) if QUICK else (1, 2, 3, 4, 5))
              for nroot in ((2,) if QUICK else (2, 3)) for style in ("mine", "named")]
    pparts.append(chain_work(chains))
    cplans = collide_plans()
    pparts.append(collide_work(cplans))
    # run-time rearing after build-time insular clones: every sequence of rear/raze steps, shortest first
    steps = ("rear-worker", "rear-helper", "raze-first", "raze-last")
    rears = [(nb, sh, seq) for n in range(1, (3 if QUICK else 5) + 1) for sh in (False, True)
             for nb in (((0, 1, 2) if not sh else (0, 1)) if QUICK else (0, 1, 2, 3))
             for seq in itertools.product(steps, repeat=n) if seq[0].startswith("rear-")]
    pparts += core.pmap(rear_work, [rears[i::8] for i in range(8)], procs=min(core.NPROC, 8)) if not QUICK else [rear_work(rears)]
    pv = []
    for p in pparts:
        pv.extend(p.violations)
        p.violations = []
    ck.merge(pparts)
    for v in sorted(pv, key=lambda v: (len(v[3].get("program", "")) if isinstance(v[3], dict) else 0, v[1])):
        ck.part.violation(*v)
    ck.coverage_extra = dict(underscore_collision_plans=[c[0] for c in cplans], rear_sequences=len(rears), twin_family=dict(preload=hist_str(TWIN_PRELOAD), operations_after_preload=TWIN_DEPTH), clone_chain_programs=len(chains), focused_family=dict(preload=hist_str(FOCUS_PRELOAD), operations_after_preload=FOCUS_DEPTH, shards=len(ffirsts)), all_outcomes=dict(sorted(ck.part.outcomes.items())), first_operations=len(firsts), max_depth_after_first=MAX_DEPTH, programs=len(grid),
                             explicit_names=EXPL, randint_draws_enumerated=RCAP, randint_answers=[0, 1])
    ck.assumptions = [
        "plans whose generated clone names coincide through underscores in framer names / tags may be rejected at build (what the unchanged code does) or "
        "accepted with distinct names; accepting them with two live framers under one name is the violation",
        "run-time rearing / razing calls the real Rearer.action / Razer.action bodies with a stand-in for the actor's self; each rear must add exactly one new "
        "tag to framer.auxes without CloneError (re-use of a razed clone's tag is allowed); after every step every live framer of the house (originals, incl. a plain "
        "aux shared by the clones, and the clones still attached) is the instance registered under its name, and explicit duplicates of the originals are rejected afterwards",
        "Framer.prune() ends the framer's life; it releases the name only in the tasker namespace that is current and only if that namespace holds this very instance "
        "(a same-named live framer of another house must stay registered)",
        "Clear() starts a fresh class-level namespace (it rebinds the class registry); a house's own registry is untouched and becomes current again on assignRegistries()",
        "the namespace of an instance is the one current when it is created (House: global; Store/Tasker/Framer/Logger/Log: class-level or the assigned house's; Frame: class-level or the assigned framer's)",
        "random.randint in the collision loop answers only 0 or 1 (letters a, b) for the first %d draws of a creation and 25 afterwards; all such answer sequences are enumerated" % RCAP,
        "House() whose implied Store name is already taken in the current store namespace fails after registering the house name; that outcome is tolerated (not a uniqueness question)",
        "rejected means ParameterError (Registrar) or CloneError (Framer.clone); Counter values are not part of the registry contents",
        "Clear() on subclasses (Framer.Clear(), Logger.Clear()) is not exercised: it would detach the subclass from the shared tasker namespace",
    ]
    return ck.finish(
        rule="BFS from each of %d first operations, %d further operations, all operations in {create House/Store/Tasker/Framer/Logger/Log/Frame with each explicit name or automatic "
             "(x every randint answer sequence), Clear x5, ClearRegistries, assignRegistries per house, assignFrameRegistry and clone per framer}; at most %d houses and %d framers (+1 clone); "
             "registries (contents by instance identity and which registry object is current) compared with the reference after every operation.  "
             "Second family: from 'house h current, owning tasker x, log x, framer f' every history of %d operations over {per-class Clear, ClearRegistries, "
             "assignRegistries of the same house, Framer.clone, explicit-duplicate and automatic creations}.  Third family: two houses each holding a live framer f; every history of %d operations over {assignRegistries of either house, prune() of either framer, "
             "explicit duplicate Framer/Tasker f in either house, House('h'), House('g'), House()}.  Plus %d generated programs built through Builder, "
             "plus %d clone-chain plans (2-3 root framers each cloning the same chain of 1..%d moot framers, insular or equally tagged; the build must succeed and all "
             "framer names of the house be distinct and registered to their own instance), plus %d rear/raze sequences on a framer that already owns 0-3 build-time insular "
             "clones of the same moot (every generated tag / name must be fresh, no CloneError, live framers registered under distinct names), plus %d plans whose clone names <surname>_<tag> coincide through underscores (rejected at build, or "
             "all live framers distinct and registered)."
             % (len(firsts), MAX_DEPTH, MAX_HOUSES, MAX_FRAMERS, FOCUS_DEPTH, TWIN_DEPTH, len(grid), len(chains), max(c[1] for c in chains), len(rears), len(cplans)),
        exhaustive=False,
        explanation="complete for histories of at most %d operations over the stated alphabet; not a fixpoint" % (MAX_DEPTH + 1))


if __name__ == "__main__":
    core.main(run)
