"""C08 Entry guards are never bypassed and refused transitions have no effect.
Engine A: guarded forest families x BFS over env-input histories on the real Builder/Skedder; guard monitor from the
statement + comparison of events/outline/clocks with the reference interpreter (refusals must leave no trace)."""
META = dict(
    engine="flo", level="model_checking",
    technique="explicit-state BFS over env-input histories of enumerated guarded FloScript programs on the real Builder/Skedder; guard invariant on every enter event; refusal = no effect vs reference interpreter",
    text="Every labelled forest on up to 3 frames with every placement of `let` guards (env bit e1), one transition (env bit e0) from every frame "
         "to every frame/next/me, plain auxiliaries with a guarded first frame on every frame, and one original auxiliary attached to every pair of "
         "frames, is explored through every reachable (state x env input). Monitors: a frame's enter action never runs at a tick where one of its "
         "guards (or its auxiliary's first-frame guards) is false; no frame is entered while already entered (ownership); and the per-tick events, "
         "active outline, elapsed and recurred equal the reference interpreter's, in which a refused start/transition does nothing.",
    note="Guards are functions of env bits that only change at tick start, so 'at the moment of the attempt' = the tick's env. Reference interpreter mc/flo/ref.py.",
)
from mc import core
from mc.flo import runner


def family():
    from mc.flo import families as F
    yield from F.fam_guards(2)
    yield from F.fam_guards(3, with_aux=(core.TIER != "quick"))
    if core.TIER == "quick":
        # aux variants on 3 frames restricted to chains/forks rooted at f0 for the quick tier
        for label, prog, meta in F.fam_guards(3, with_aux=True):
            if "/aux@" in label and meta["parents"] in ((None, 0, 1), (None, 0, 0), (None, None, 0), (None, 0, None)):
                yield label, prog, meta


    yield from F.fam_guarded_start()
    for label, prog, meta in F.fam_clone_guards():
        yield label, prog, dict(clones=True)      # guards (plain and NEGATED) inside cloned moot framers
    for label, prog, meta in F.fam_markers_guarded():
        yield label, prog, dict(marks=True)
    for label, prog, meta in F.fam_markers_refused_aux():
        yield label, prog, dict(marks=True, alphabet=meta["alphabet"])


def on_prog(p, idx, label, prog, meta):
    from mc.flo import explore, monitors, families as F, lang, conform
    if meta.get("clones"):
        runner.explore_and_check(p, idx, label, prog, mons=(), cmp=runner.cmp_full(fields=(0, 1, 3, 4, 5, 6, 7)), depth=6, sample_every=7)
        return
    if meta.get("marks"):
        # refused attempts whose conditions are marker needs: marks (reset only by transit actions) must equal the reference's
        runner.explore_and_check(p, idx, label, prog, mons=(), cmp=runner.cmp_full(fields=(0, 1, 3, 4, 5)),
                                 alphabet=meta.get("alphabet") or F.XE_ALPHABET, back_alphabet=[None, {"x": 1}],
                                 watch=("x", "env.e0", "env.e1"), depth=8, sample_every=7)
        return

    def on_run(prog, envf, envb, rr, text, br):
        p.evaluations += 1
        if rr is None:
            runner.violation(p, idx, "build-failed|" + br.kind, label, "family program does not build: %r" % (br.exc,), dict(text=text))
            return True
        if rr.outcome != "returned":
            runner.violation(p, idx, "run-" + rr.outcome.split()[0], label, "run did not return: %s %r" % (rr.outcome, rr.exc),
                             dict(text=text, env=envf))
            return True
        probs = monitors.mon_guards(prog, rr, envf)
        probs += [q for q in monitors.mon_bracket(prog, rr) if q[0] in ("enter-twice",)]
        if probs:
            g, d = probs[0]
            runner.violation(p, idx, g, "%s env=%s" % (label, sorted(envf.items())), d, dict(text=text, env=envf, problems=probs[:5]))
            return True
        ro = conform.run_ref(prog, len(rr.ticks), envf, envb)
        n = min(len(rr.ticks), len(ro.ticks))
        for k in range(n):
            if list(rr.events[k]) != list(ro.events[k]):
                runner.violation(p, idx, "events-differ-from-reference", "%s env=%s" % (label, sorted(envf.items())),
                                 "tick %d events %r, reference (refusal has no effect) %r" % (k, rr.events[k], ro.events[k]),
                                 dict(text=text, env=envf, tick=k))
                return True
            for x, y in zip(rr.ticks[k]["framers"], ro.ticks[k]["framers"]):
                xa = (x[0], x[1], x[4], tuple(x[5]), x[6], x[7])
                ya = (y[0], y[1], y[4], tuple(y[5]), y[6], y[7])
                if xa != ya:
                    runner.violation(p, idx, "state-differs-from-reference", "%s env=%s" % (label, sorted(envf.items())),
                                     "tick %d (name,status,active,actives,elapsed,recurred) %r, reference %r" % (k, xa, ya),
                                     dict(text=text, env=envf, tick=k))
                    return True
        if len(rr.ticks) != len(ro.ticks):
            runner.violation(p, idx, "run-length-differs", label, "real %d ticks, reference %d" % (len(rr.ticks), len(ro.ticks)), dict(text=text, env=envf))
            return True
        last = rr.ticks[-1]["framers"][0] if rr.ticks else None
        p.outcome("%s/%s" % (last[1], last[4]) if last else "none")
        return False

    st = explore.explore(prog, F.ENV_ALPHABET, depth=6 if core.TIER == "quick" else 8, on_run=on_run)
    p.states += st["states"]
    p.transitions += st["transitions"]
    p.traces += st["runs"]
    p.capped = p.capped or st["capped"]
    p.nontrivial(label)
    if idx % 499 == 0:
        p.sample(dict(label=label, script=lang.emit(prog), bfs=st))


def run():
    ck = core.Check("C08", "model_checking", META["technique"])
    runner.run_family(ck, family, on_prog)
    ck.assumptions = ["guards depend only on env bits written at tick start", "reference interpreter mc/flo/ref.py (DESIGN appendix A)"]
    return ck.finish(rule="program = forest + guard placement + one transition (+ plain aux with guarded first frame / shared original aux); "
                          "state = canonical framer snapshot; transition = one tick with one of 4 env inputs (+ stop tick)",
                     exhaustive=True)


if __name__ == "__main__":
    core.main(run)
