"""C18 the data store tree stays well formed.  Engine B (seq): explicit-state BFS over store operation
histories on a fresh real Store (replayed from the history) against an abstract tree model."""
META = dict(
    engine="seq", level="model_checking",
    technique="explicit-state BFS over Store operation histories, replay-from-history on a fresh real Store, canonical-state dedupe, "
              "abstract tree model compared after every step",
    text="Operations create / createNode / add(Share) / addNode / change(Share) over a path alphabet with shared prefixes, share/node kind conflicts, "
         "dotted variants (.a  a.  .a.b.), empty segments (a..b  .  '') and the store's built-in entries (time, meta) are explored breadth first to "
         "the fixpoint.  After every transition the real tree (walked through Store.shares) must equal the model tree: same paths, same kinds, at every "
         "path the identical object that was most recently placed there, every name equal to its dotted path; a rejected operation must leave "
         "the tree identical; and fetch / fetchShare / fetchNode over the whole alphabet plus one level below every share must return exactly that "
         "object or None.  Lookups under every dotted spelling (p, .p, p., .p.) are part of every history: the battery runs after every operation, "
         "so a replaced or added object is looked up before and after the change under each spelling, and all spellings must give the identical object.",
    note="A name is compared modulo leading/trailing dots (Store.add keeps the caller's Share.name, e.g. '.a'); which exception a rejection raises is "
         "not compared; addNode on an existing node returns it (no rejection demanded).",
)
import collections

from mc import core

# ------------------------------------------------------------------ alphabet

# quick: a three level chain a / a.a / a.a.a whose segment name repeats (a node must still be named by its full path), the sibling a.b,
# dotted variants, empty segments, the built-in share `time` and node `meta`
PATHS_QUICK = ["a", "a.b", "a.a", "a.a.a", "b", ".a", "a.", ".a.b.", "a..b", ".", "", "time", "time.t", "meta.m"]
PATHS_MORE = ["a.b.c", "a.c", "a.b.a", "a.b.a.b", "..a", "a..b.c", "meta"]
VERBS = ["create", "createNode", "add", "addNode", "change"]


def op_text(verb, path):
    if verb == "create":
        return "s.create(%r).update(value=1)" % path
    if verb in ("add", "change"):
        return "s.%s(Share(name=%r, value=1))" % (verb, path)
    return "s.%s(%r)" % (verb, path)


def segs_of(path):
    return path.strip(".").split(".")


# ------------------------------------------------------------------ model

class Model:
    """tree: path tuple -> (kind, token).  A token names the object placed (step number, path)."""

    def __init__(self, tree=None):
        self.tree = dict(tree or {})

    def copy(self):
        return Model(self.tree)

    def lookup(self, path, kind=None):
        segs = segs_of(path)
        if not all(segs):
            return None
        e = self.tree.get(tuple(segs))
        if e is None or (kind and e[0] != kind):
            return None
        return e

    def _add_nodes(self, segs, upto, step, placed):
        for i in range(1, upto + 1):
            p = tuple(segs[:i])
            if p not in self.tree:
                self.tree[p] = ("node", "n%d:%s" % (step, ".".join(p)))
                placed.append(p)

    def add(self, name, step, placed):
        """-> result token or None when rejected (tree untouched)"""
        if not name:
            return None
        segs = segs_of(name)
        if not all(segs):
            return None
        for i in range(1, len(segs)):
            e = self.tree.get(tuple(segs[:i]))
            if e and e[0] == "share":
                return None
        if tuple(segs) in self.tree:
            return None
        self._add_nodes(segs, len(segs) - 1, step, placed)
        tok = "s%d:%s" % (step, ".".join(segs))
        self.tree[tuple(segs)] = ("share", tok)
        placed.append(tuple(segs))
        return tok

    def add_node(self, name, step, placed):
        segs = segs_of(name)
        if not all(segs):
            return None
        for i in range(1, len(segs) + 1):
            e = self.tree.get(tuple(segs[:i]))
            if e and e[0] == "share":
                return None
        self._add_nodes(segs, len(segs), step, placed)
        return self.tree[tuple(segs)][1]

    def apply(self, verb, path, step):
        """-> (result token | None if rejected, [paths newly placed])"""
        placed = []
        if verb == "add":
            return self.add(path, step, placed), placed
        if verb == "addNode":
            return self.add_node(path, step, placed), placed
        if verb == "create":
            e = self.lookup(path, "share")
            if e:
                return e[1], placed
            return self.add(path.strip("."), step, placed), placed
        if verb == "createNode":
            e = self.lookup(path, "node")
            if e:
                return e[1], placed
            return self.add_node(path, step, placed), placed
        if verb == "change":
            segs = segs_of(path)
            e = self.tree.get(tuple(segs)) if all(segs) else None
            if not e or e[0] != "share":
                return None, placed
            tok = "s%d:%s" % (step, ".".join(segs))
            self.tree[tuple(segs)] = ("share", tok)
            placed.append(tuple(segs))
            return tok, placed
        raise core.BrokenCheck("verb %r" % verb)


# ------------------------------------------------------------------ real side

class Real:
    def __init__(self, storing):
        self.storing = storing
        storing.Store.Clear()
        self.store = storing.Store(stamp=0.0)
        self.bound = {}          # token -> real object

    def walk(self):
        """path tuple -> object, through Store.shares (Nodes recursed into, anything else is a leaf)"""
        out = {}
        Node = self.storing.Node

        def rec(node, prefix):
            for k in list(node.keys()):
                v = dict.__getitem__(node, k)
                p = prefix + (k,)
                out[p] = v
                if isinstance(v, Node):
                    rec(v, p)
        rec(self.store.shares, ())
        return out

    def kind(self, obj):
        if isinstance(obj, self.storing.Share):
            return "share"
        if isinstance(obj, self.storing.Node):
            return "node"
        return "alien %s" % type(obj).__name__

    def run(self, verb, path):
        """-> ('ok', returned object, passed share or None) | ('rejected', exception name, None)"""
        s, Share = self.store, self.storing.Share
        passed = None
        try:
            if verb == "create":
                r = s.create(path)
                r.update(value=1)
            elif verb == "createNode":
                r = s.createNode(path)
            elif verb == "addNode":
                r = s.addNode(path)
            else:
                passed = Share(name=path, value=1)
                r = s.add(passed) if verb == "add" else s.change(passed)
        except Exception as ex:
            return ("rejected", type(ex).__name__, None)
        return ("ok", r, passed)


def init_model(real):
    """the built-in entries of a fresh Store (meta, time, realtime, datetime) seed the model"""
    m = Model()
    for p, obj in real.walk().items():
        tok = "builtin:" + ".".join(p)
        m.tree[p] = (real.kind(obj), tok)
        real.bound[tok] = obj
    return m


def step(real, model, verb, path, n, judge=None):
    """Apply one operation to both sides and bind the placed tokens.  With `judge` (a callable
    collecting complaints) everything is compared; returns False when real and model diverged."""
    m2 = model.copy()
    tok, placed = m2.apply(verb, path, n)
    got = real.run(verb, path)
    tree = real.walk()
    ok = True

    def bad(group, msg):
        nonlocal ok
        ok = False
        if judge:
            judge(group, msg)

    if tok is None:
        if got[0] != "rejected":
            bad("%s|not rejected" % verb, "%s must be rejected but returned %r" % (op_text(verb, path), got[1]))
    elif got[0] == "rejected":
        bad("%s|valid operation rejected" % verb, "%s raised %s, the model places it" % (op_text(verb, path), got[1]))
    target = m2 if (tok is not None and got[0] == "ok") else model
    if got[0] == "ok" and tok is not None:
        for p in placed:                   # bind what this step placed
            if p in tree:
                real.bound[target.tree[p][1]] = tree[p]
        if got[2] is not None and tree.get(tuple(segs_of(path))) is not got[2]:
            bad("%s|passed share is not at its path" % verb, "after %s the object at that path is %r" % (
                op_text(verb, path), tree.get(tuple(segs_of(path)))))
        if real.bound.get(tok) is not got[1]:
            bad("%s|returns another object" % verb, "%s returned %r, placed object is %r" % (
                op_text(verb, path), got[1], real.bound.get(tok)))
    # the whole tree
    for p in sorted(set(tree) | set(target.tree)):
        dotted = ".".join(p)
        if p not in target.tree:
            if got[0] == "rejected":
                bad("%s|rejected but the store changed" % verb, "%s was rejected (%s) but %r now exists" % (
                    op_text(verb, path), got[1], dotted))
            elif tok is not None:
                bad("%s|unexpected entry" % verb, "after %s there is an entry at %r (%s) the model does not have" % (
                    op_text(verb, path), dotted, real.kind(tree[p])))
            continue
        kind, t = target.tree[p]
        if p not in tree:
            bad("%s|entry missing" % verb, "after %s the %s at %r is gone" % (op_text(verb, path), kind, dotted))
            continue
        obj = tree[p]
        if real.kind(obj) != kind:
            bad("%s|wrong kind" % verb, "after %s %r is a %s, model: %s" % (op_text(verb, path), dotted, real.kind(obj), kind))
        elif real.bound.get(t) is not obj:
            bad("%s|object replaced" % verb, "after %s the object at %r is not the one most recently placed there" % (
                op_text(verb, path), dotted))
        else:
            name = getattr(obj, "name", None)
            if not isinstance(name, str) or name.strip(".") != dotted:
                bad("%s|name is not the path" % verb, "after %s the %s at %r has name %r" % (op_text(verb, path), kind, dotted, name))
    return ok, target, got


def lookups(real, model, paths, judge):
    """fetch / fetchShare / fetchNode over the alphabet and one level below every path"""
    s = real.store
    n = 0
    for p in paths:
        for meth, kind in (("fetch", None), ("fetchShare", "share"), ("fetchNode", "node")):
            n += 1
            try:
                got = getattr(s, meth)(p)
            except Exception as ex:
                judge("%s|raises %s" % (meth, type(ex).__name__), "s.%s(%r) raises %r" % (meth, p, ex))
                continue
            e = model.lookup(p, kind)
            exp = real.bound.get(e[1]) if e else None
            if got is not exp:
                if e is None:
                    under = model.lookup(p.rsplit(".", 1)[0]) if "." in p.strip(".") else None
                    why = "returns a share's field" if (under and under[0] == "share") else "returns something for a path holding nothing"
                else:
                    why = "returns None" if got is None else "returns another object"
                judge("%s|%s" % (meth, why), "s.%s(%r) returned %r, model: %r" % (meth, p, got, e))
        e = model.lookup(p, "share")
        if e:                         # create of an existing share is a lookup too: it must hand back that very object
            n += 1
            try:
                got = s.create(p)
            except Exception as ex:
                judge("create(existing)|raises %s" % type(ex).__name__, "s.create(%r) raises %r although the share exists" % (p, ex))
                continue
            if got is not real.bound.get(e[1]):
                judge("create(existing)|returns another object", "s.create(%r) returned %r, which is not the share the tree holds at that path" % (p, got))
    return n


# ------------------------------------------------------------------ explorer

def canon(real):
    out = []
    for p, obj in sorted(real.walk().items()):
        out.append((p, real.kind(obj), getattr(obj, "name", None)))
    return tuple(out)


def touch(real, lookup_paths, model=None):
    """the lookup battery without judging: lookups are part of every history (issued after the store is made and
    after every operation), so that anything a lookup leaves behind in the store is there when the next operation runs"""
    s = real.store
    for p in lookup_paths:
        for meth in (s.fetch, s.fetchShare, s.fetchNode):
            try:
                meth(p)
            except Exception:
                pass
        if model is not None and model.lookup(p, "share"):
            try:
                s.create(p)
            except Exception:
                pass


def build(storing, hist, lookup_paths=()):
    real = Real(storing)
    model = init_model(real)
    touch(real, lookup_paths, model)
    for i, (verb, path) in enumerate(hist):
        ok, model, _ = step(real, model, verb, path, i + 1)
        touch(real, lookup_paths, model)
    return real, model


def explore(arg):
    tier = arg
    core.use_repo()
    from ioflo.base import storing
    part = core.Part()
    paths = PATHS_QUICK + (PATHS_MORE if tier == "thorough" else [])
    lookup_paths = list(paths)
    for p in paths:                       # every dotted spelling of every path of the alphabet
        c = p.strip(".")
        if c and ".." not in c:
            for sp in (c, "." + c, c + ".", "." + c + "."):
                if sp not in lookup_paths:
                    lookup_paths.append(sp)
    lookup_paths += [p + ".value" for p in ("a", "a.b", "a.a", "a.a.a", "a.b.c", "a.c", "b", "time", ".a.", "meta")] + ["a.value.x", "zz", "a.zz"]
    ops = [(v, p) for v in VERBS for p in paths]

    def judge_for(hist):
        text = "; ".join(op_text(v, p) for v, p in hist) or "(fresh store)"

        def judge(group, msg):
            part.violation(group, text, "after [%s]: %s" % (text, msg),
                           dict(history=[op_text(v, p) for v, p in hist],
                                how="from ioflo.base.storing import Store, Share; Store.Clear(); s = Store(stamp=0.0); then the history lines; after the "
                                    "constructor and after every line call s.fetch(p), s.fetchShare(p), s.fetchNode(p) (and s.create(p) where a share exists) for every p in lookup_paths",
                                lookup_paths=lookup_paths,
                                detail=msg))
        return judge

    real, model = build(storing, [], lookup_paths)
    part.traces += 1
    part.evaluations += lookups(real, model, lookup_paths, judge_for([]))
    seen = {canon(real)}
    frontier = collections.deque([()])
    depth = 0
    while frontier:
        hist = frontier.popleft()
        for op in ops:
            real, model = build(storing, hist, lookup_paths)
            h2 = hist + (op,)
            judge = judge_for(h2)
            ok, m2, got = step(real, model, op[0], op[1], len(h2), judge)
            part.transitions += 1
            part.traces += 1
            part.evaluations += 1
            part.outcome("%s:%s" % (op[0], "placed/returned" if got[0] == "ok" else "rejected " + got[1]))
            if not ok:
                continue                      # diverged: do not expand
            before = canon(real)
            part.evaluations += lookups(real, m2, lookup_paths, judge)
            if canon(real) != before:
                judge("lookup|changed the store", "lookups changed the tree")
                continue
            depth = max(depth, len(h2))
            if before not in seen:
                seen.add(before)
                frontier.append(h2)
                part.nontrivial(repr(before))
                if len(seen) % 17 == 2:
                    part.sample(dict(history=[op_text(v, p) for v, p in h2],
                                     tree=[".".join(p) + ":" + k for p, k, _ in before]))
    part.states = len(seen)
    part.extra["bfs"] = dict(states=len(seen), depth_reached=depth, fixpoint=True, operations=len(ops),
                             paths=paths, lookup_paths=len(lookup_paths))
    return part


def run():
    ck = core.Check("C18", "model_checking", META["technique"])
    ck.merge(core.pmap(explore, [core.TIER]))
    ck.assumptions = [
        "'records its own dotted path as its name' is read modulo leading/trailing dots, because Store.add keeps the name the caller gave the Share",
        "'rejected' = the call raises; which exception is not compared; the model rejects: add over any existing entry, a path through a share, "
        "an empty segment (after stripping leading/trailing dots), an empty name, change of a missing share or of a node",
        "addNode / createNode on an existing node and create on an existing share return the existing object",
        "shares carry a field 'value' so that lookups one level below a share have something to find wrongly",
        "the whole lookup battery (fetch, fetchShare, fetchNode, and create where the share exists, under every dotted spelling p, .p, p., .p. of every path) runs after the constructor and "
        "after every operation of every history, before and after each add/change/create; dedupe is on the tree only, so a lookup is required to be "
        "observationally pure - anything it leaves behind is exposed by the operations and lookups that follow in the same history",
    ]
    return ck.finish(
        rule="BFS to fixpoint over histories of %d verbs x path alphabet (%d paths quick, %d thorough) with dedupe on the real tree "
             "(path, kind, name); non-trivial = distinct reachable tree" % (len(VERBS), len(PATHS_QUICK), len(PATHS_QUICK) + len(PATHS_MORE)),
        exhaustive=True)


if __name__ == "__main__":
    core.main(run)
