#!/opt/veriftools/pyvenv/bin/python
"""tools/validate.py -> validates MANIFEST.json and every evidence/*.json against the given schemas (jsonschema, tooling venv)."""
import json, glob, sys, jsonschema
bad = 0
try:
    jsonschema.validate(json.load(open('/verif/MANIFEST.json')), json.load(open('/root/.vp/MANIFEST.schema.json')))
except Exception as e:
    bad += 1; print("MANIFEST:", str(e)[:300])
sch = json.load(open('/root/.vp/EVIDENCE.schema.json'))
files = sorted(glob.glob('/verif/evidence/*.json'))
for f in files:
    try:
        jsonschema.validate(json.load(open(f)), sch)
    except Exception as e:
        bad += 1; print(f, str(e)[:300])
print("validated MANIFEST + %d evidence files, %d invalid" % (len(files), bad))
sys.exit(1 if bad else 0)
