#!/usr/bin/env python3
"""Regenerate the seeded-change table of DESIGN.md section 10 from /verif/seeded/*/meta.json."""
import json, glob, os, re
NOTES = {
 "C22i-log-prepare-seeds-change-rule": "missed at first: every selected field of the change shards existed at START; absent-field shards (first/middle/last position, created later with None or a value) added",
 "C23i-log-cycle-rename-loop-rotation": "missed at first: no I/O error injection; declared extension: one failing os.rename per run at every position (keep 2, 3)",
 "C24i-client-tx-inherited-clienttls-splits": "missed at first: bufsize-2 runs only used 1-3 byte messages; bufsize 1 added so every 2- and 3-byte message is an exact multiple of .bs",
 "C25i-socketudpnb-send-udp-sendto-error": "missed at first: console verbosity and payload encoding were fixed; {0, profuse} x {ASCII, non-UTF-8} added to the fault grid",
 "C26i-server-removeix-function-not-touched": "missed at first: entries never held unsent data at removal; transmitIx / peerbreak events under EPIPE/EBADF added (fourth BFS family)",
 "C36i-tcpserverstack-servicereceives-servicereceiveson": "missed at first: clients never closed right after sending; `sendclose` mode with lost-at-close oracle added",
 "C18h-store-add-store-addnode-dropped": "missed at first: no path of the alphabet repeated a segment name; chain `a / a.a / a.a.a` added",
 "C19h-share-change-share-create-refactored": "missed at first: no create() call named a new field twice; repeated-name create calls added (first value stays)",
 "C22h-log-update-per-loggee-guard": "missed at first: every loggee was stamped at creation; never-stamped loggee shards (two loggees, either position) added",
 "C23h-log-flush-made-conditional-new": "missed at first: C23 had no streak/deck log; queue-rule family (one element per tick) added to the crash histories",
 "C35h-gramstack-servicetxpktsonce-udpstack-serviceallt": "missed at first: Once family required exactly-once and order only; progress oracle (a healthy destination is not blocked by a failing one) added",
 "C36h-stack-init-declares-rxbs-bytearray": "made the check exit 2 at first (state shared between executions = replay divergence); a divergence confirmed in a fresh process is now a VIOLATION (core)",
 "C42h-monotimer-update-cleaned-up-read": "missed at first: the model accepted `latest` kept or advanced after TimerRetroError; now the timer must be unchanged after the error",
 "C47h-framer-prune-called-razer-actor": "missed at first: prune() was not in the alphabet; prune op + twin-houses family added",
 "C05i-suspender-resuspend-run-conditional-aux": "missed at first: at most two conditional auxes on a frame; three-aux family added to C05/C10",
 "C09i-needdoneaux-resolve-resolves-frame-named": "missed at first: done needs never named a frame of another framer; cross-framer `in frame F in framer R` needs added",
 "C15i-builder-buildlog-duplicate-log-file": "missed at first: no two logs of one logger wrote to the same file; duplicate-file families (every clause subset and order) added",
 "C34i-patron-redirect-tidied-take-components": "missed at first: no Location path carried a percent-escape; `%C3%A9` / `%20` paths in the absolute and relative forms, compared after decoding exactly once",
 "C04g-framer-checkstart-checks-entry-needs": "missed at first by C04: the slave's guard was always on its first frame; guard on the frame under the first frame added",
 "C08g-act-clone-deep-copies-act": "missed at first by C08 (C12 family existed): clone-guards family (negated let in clones) added to C08",
 "C09g-frame-checkenter-while-wrapping-aux": "missed at first: no aux (clone or not) whose own first frame carries a shared original aux; nested-shared family added",
 "C12g-actor-initio-turns-ioinits-behaviour": "missed at first: no behaviour with a mutable ioinit default; `acc` harness doer (list kept in framer.me.acclog) + clone-doer-state family added",
 "C16g-builder-tokenize-refuses-treat-trailing": "missed at first: no quoted string contained `#`; `quotes` program added",
 "C20g-need-resolution-loop-duplicated-transiter": "missed at first: no transition had marker needs on two different shares; two-shares family added",
 "C21g-need-check-simplified-band-test": "missed at first: values were dyadic; non-dyadic decimals on the band edges (+- one ulp) added",
 "C22g-log-logstreak-drains-queued-container": "missed at first: the producer re-fetched the queue for every append; aliased producer (`qa`) and `same object emptied` oracle added",
 "C24g-incomer-init-inherited-incomertls-gained": "missed at first: one connection per execution; two Incomers created by a real Server (interleaved tx, dead-then-new) added",
 "C26g-server-serviceaxes-tidied-while-self": "missed at first: accepts never faulted; getpeername faults inside a batch added",
 "C27g-cleanup-ioflo-aio-tcp-clienting": "missed at first: no TLS client in the reconnect schedules; ClientTls and PatronTls subjects added",
 "C30g-two-site-avoid-copying-large": "missed at first: responses were checked at delivery only; every kept response re-checked after the sequence, mixed fixed/streamed/error answers",
 "C32g-duplicated-content-length-handling-requestant": "missed at first: Content-Length mutations had no high bytes; every byte 0x80-0xFF at each position added",
 "C34g-patron-redirect-resolves-location-against": "missed at first: relative Locations had plain queries; `://` inside query/fragment of relative forms",
 "C35g-gramstack-serviceonetxpkt-udpstack-restructured-": "missed at first: no zero-length datagram; added",
 "C37g-ipdevice-ha-became-property-whose": "missed at first: plain devices with string addresses only; IpRemoteDevice configuration with normalised (host, port) spellings added",
 "C39g-odict-keys-inherited-lodict-modict": "missed at first: keys() never held across a mutation or edited; held/edited views and delete-while-iterating added",
 "C40g-packifyinto-de-duplicated-reuse-packify": "missed at first: packifyInto only with size=None; explicit larger sizes into pre-filled buffers, both byte orders",
 "C42g-monotimer-latest-clock-reading-state": "missed at first: one timer per configuration; two-MonoTimer configurations with cross-talk oracle added",
 "C45g-arbiterswitch-update-optimised-walk-group": "missed at first: group shares always created by the arbiter; pre-created .insels/.inimps in permuted field order",
 "C46g-navigating-wrap2-used-controllerpid-action": "missed at first: differences never exceeded 3*wrap; multi-turn differences added",
 "C47g-framer-mains-used-framer-surname": "missed at first: clone chains were at most 2 deep; built plans with two roots x chains of depth 1..3 added",
 "C03h-skedder-run-tasker-whose-turn": "missed at first: every C03 framer had period 0; slow-period tasker bid between its turns (R6) added",
 "C11h-three-copies-bid-period-period": "missed at first: no framer was re-bid with a period while inside a timeout frame; clocks-rebid family added",
 "C12h-framer-prune-called-raze-verb": "missed at first: reared moots had one nested insular clone; 2-3 adjacent ones, razed and reared again",
 "C13h-builder-parserelation-localizes-explicit-framer": "missed at first: no inode named the lexically previous framer/frame and no moot named itself; explicit-name family added",
 "C18f-fetchshare-cache-by-spelling": "missed at first: lookups ran only on the final state of each history; the lookup battery (every dotted spelling, identity compared) now runs after every operation",
 "C06f-claimed-only-if-free": "missed at first by C06 (C09 caught it): the hand-over family was only in C09; added to C06",
 "C05f-exitall-extends-head-in-place": "missed at first by C05 and C10: no framer was stopped while its conditional aux was running and then restarted; restart-with-running-condaux programs added",
 "C09f-exitall-no-copy-outline": "missed at first by C09: no hierarchical aux was activated a second time; nested shared aux over 2-3 main frames added",
 "C15f-logger-term-sentinel": "missed at first: no logger had keep with explicit cycle 0; rotate families added",
 "C13f-frame-main-prefix-match": "missed at first: no name had a keyword as prefix/suffix; keyword-affix name family added",
 "C03f-readied-keeps-ticking": "missed at first: no tasker was ever left READIED; R5 programs (bid ready, nobody starts it, others stop) added",
 "C14f-resolveframe-wrong-registry": "missed at first: `in frame X in framer Y` never named a frame existing only in Y; rich scaffold added",
 "C11f-segue-auxes-full-outline": "caught by C11; missed at first by C10/C09: the plain aux under the conditional auxes had no transitions; cycle aux added",
 "C30f-parseline-cursor-past-cr": "missed at first by C30 (C29 caught it): responses were delivered whole; two-piece delivery at every offset added",
 "C34f-redirect-reads-respondent-list": "missed at first: a fresh Patron per chain; a second redirected request on the same Patron added to every execution",
 "C21f-bare-clock-need-path-baked": "missed at first by C21 (C11 caught it): clock comparisons were never evaluated inside clones; cloneclock family added",
 "C24f-tx-quota-drops-tail": "missed at first: every configuration used bs=8096; bufsize 2 configurations added",
 "C27f-sse-retry-ms-not-converted": "missed at first: no event-stream Patron; PatronSSE configuration (retry: 500, cut 3-4 times) added",
 "C43f-zero-wrap-falsy-default": "missed at first: for wrap 0 the angles stayed within +-3; multiples of 45 up to +-1080, Fraction(0) wraps and the documented defaults added",
 "C38f-tx-stuck-at-first-message": "missed at first: BFS dedupe used implementation state only, so the state after `send m2` was merged away; the reference's latest message is now part of the canonical state",
 "C45f-selected-skips-zero-importance": "missed at first: importances were never exactly 0; zeroimp family added",
 "C40f-packify-onebit-low-bit": "missed at first: one-bit fields only got 0/1/3/bools; even truthy and non-int values added",
 "C36f-shared-rxbs-across-incomers": "missed at first: only the first client sent to the server; both clients now transmit distinct payloads",
 "C41f-memo-keeps-callers-bytearray": "missed at first: every call used a fresh bytes object; second pass through one bytearray per length rewritten in place added",
 "C10e-tracehead-declaration-order": "missed at first by C10 (C05 caught it): C10's chains were always declared over-first; the same programs declared under-first added",
 "C19e-change-bulk-dict-update": "missed at first: invalid field names never travelled in positional mappings; dict/odict/Share arguments with invalid names added",
 "C20e-added-none-field-not-changed": "missed at first: environment writes only set `value`; multi-field writes that add a field (None / 1) after the mark added",
 "C15e-server-for-rebinds-init": "missed at first: the server scaffolds' per/for keys were ignored by Server.reinit, so lost data never showed; per period / for prefix families added",
 "C09e-resuspend-skips-main-plain-aux": "missed at first by C09 (C10 caught it): no plain aux sat under conditional auxes; two conditional auxes on one frame + plain aux below added",
 "C04e-slave-in-back-scheduled": "missed at first: slaves were never declared `in front|back`; order variants (+ `bid start|stop all`) added to the fiat family",
 "C03e-frame-exit-skips-done-aux": "missed at first by C03 (C06 caught it): no aux reported done and stayed entered when the run ended; R4 programs + held-aux oracle added",
 "C11e-segue-merged-pass-skips-aux-counter": "missed at first by C11 (C07 caught it): no counting aux on a non-top frame under an interrupting upper frame; clocks-aux-interrupt family added",
 "C12e-clone-drops-unders": "missed at first: no moot used `under` / non-default first / next links; clone-shapes family added",
 "C16e-stale-lookahead-across-load": "missed at first: no multi-file program ended a loaded file with a continuation line; loaded-fragment layout variants added",
 "C13e-framer-main-uses-tag": "missed at first by C13 (C12 caught it): no main-relative reference inside a clone nested in a clone; nested-clone family (180 programs) added",
 "C22e-change-any-short-circuit": "missed at first: every log had one loggee; 2-3 loggee shards added",
 "C21e-conjunction-resumes-at-pending": "missed at first by C21 (C07 caught it): conjunctions were evaluated on fixed values; every value schedule over 3 ticks for 2-3 clause conjunctions added",
 "C26e-shutdown-except-connectionerror": "missed at first: the socket double's shutdown() never failed; shutdown errno menu (ENOTCONN, EBADF, EINVAL, ECONNRESET, EPIPE) added",
 "C28e-idle-check-stale-loop-var": "missed at first: one connection per server (or the active one accepted last); three connections N, K, M with K active added",
 "C31e-reinit-before-rebuild-keepalive": "missed at first by C31 (C30 caught it): no HEAD in C31's method alphabet; HEAD/GET/POST switching sequences added",
 "C33e-cr-lookahead-single-yield": "missed at first: the parser was never resumed without new bytes; idle passes between receives added to the split engine (C33 and C29)",
 "C23e-header-buffered-after-rotation": "missed at first: crash images judged records only; header obligation after a flush point + restart phase (reuse=True) added",
 "C39e-pop-default-identity-shortcut": "missed at first: pop defaults were never also stored values; pop(k, 0|1|None) with those values stored added",
 "C35e-once-two-failing-destinations": "missed at first: failures were all-or-nothing per call; every failing subset of 3 destinations per call added",
 "C44e-sideonly-generic-tween": "missed at first: sides were at most 12 long; long-sided polygon family (extent 15..40, every lattice point on every side) added",
 "C46e-limits-cached-at-resolve": "missed at first: limits were fixed after construction; retune operations between updates added",
 "C37e-inuse-truthiness": "missed at first: no falsy keys (uid 0, name '', ha ''); added for remotes and the local device",
 "C08b-start-readied-skips-check": "missed at first by C08 (C04 caught it): no framer was readied and later started under a guard that flips; guarded-start family added to C08",
 "C02d-stamp-by-multiplication": "missed at first by C02 (C11 caught it): the reference scheduler followed the observed stamps; the statement's `every tick when p does not exceed the tick` clause is now binding on decimal grids too (20-tick horizons)",
 "C16d-continuation-two-phase": "missed at first: blank/comment lines were only inserted before the first continuation line; fillers between every pair of continuation lines added",
 "C14d-marker-dedupe-unresolved-actor": "missed at first by C14 (C20 caught it): frames named by `in frame` had no enter actions; scaffold frames (earlier/same/later) now carry them",
 "C30d-reinit-before-rebuild": "missed at first: one request per Patron; all 1-3 request sequences over HEAD/GET/POST/DELETE on one keep-alive Patron added",
 "C32d-charset-lookuperror": "missed at first: Content-Type parameters were never mutated; charset family (67 names x client/server dictify callers) added",
 "C21d-indirect-band-cached": "missed at first by C21 and C07: the goal share was never rewritten inside one tick; before/after writers (scripted and harness, stamping and non-stamping) added to C21, env front/back writes of the goal added to C07",
 "C13d-nametopath-letters-only": "missed at first: actor names were letters only; sibling doers differing only in digits/underscores and renamings among them added",
 "C28d-refresh-skipped-while-persisted": "missed at first: no persistence-ending request with a deferred response after a long keep-alive idle; added",
 "C31d-length-before-chunked-client": "missed at first by C31 (C30 caught it): no bodiless (204/304) responses without Content-Length inside keep-alive sequences; added",
 "C34d-location-query-double-unquote": "missed at first: Location queries had no escaped reserved characters; escaped relative/absolute forms at every chain position added",
 "C23d-flush-any-short-circuit": "missed at first: the harness's flush wrappers returned None (masking the short-circuit); they now return the wrapped result, and 2-3 log loggers were added",
 "C42d-storetimer-zero-start": "missed at first: timers were always created at clock 1000.0; creation at 0.0 / unstamped stores and absolute restart(start=0.0) added",
 "C37d-slot-cache-off-by-one": "missed at first: needs 5 operations from an empty stack; second BFS family from a stack preloaded with four members added",
 "C36d-incomer-trims-in-place": "missed at first by C36 and C24: every send used a fresh buffer; same Packet/bytearray queued twice or broadcast, plus `caller's buffer unchanged` oracle added",
 "C38d-timers-not-rearmed-at-start": "missed at first: exchanges were constructed and started at the same stamp; construction-to-start gaps and restart after failure added",
 "C47d-house-current-skip": "missed at first: registries compared by contents only; identity of the current registry object compared, per-class Clear + re-entering the same house family added",
 "C05c-first-run-done-no-resuspend": "missed at first: quick tier had no instantly-completing conditional aux above a running one; now-never / now-repeat1 pairs added to C05/C10 quick",
 "C20c-marker-dedupe-across-kinds": "missed at first: no program used `is updated` and `is changed` on the same share/key/frame; both-kinds family added",
 "C09c-claimed-only-if-unowned": "missed at first: shared original aux was never HELD by the exited frame while two target frames carried it; hand-over family added",
 "C06c-exit-skips-done-aux": "missed at first by C06 (C09 caught it): C06 had only conditional auxes; plain auxes that complete before their main frame exits added",
 "C08c-refused-attempt-runs-tracts": "missed at first by C08 (C20 caught it): refused attempts never had marker conditions; marker-guarded transitions and refused conditional-aux starts added to C08",
 "C11c-clone-implicit-need-path": "missed at first by C11 (C12 caught it): timeout/repeat never ran inside a clone; clone variants of the clock chains added",
 "C14c-doneneed-framer-default": "missed at first: need spellings with `in frame` but no `in framer` were not generated; need-spelling family (2079 needs x contexts) added",
 "C16c-connectives-missing-comma": "missed at first: the check read the connective list from ioflo itself; literal list from the docs + `via`/`as` clauses on every verb that allows them",
 "C22c-deck-spew-stops-at-none": "missed at first: decks never held None / junk elements; added",
 "C07b-put-returns-share": "missed at first: store verbs were never placed in the precur context; precur/renter/rexit placements added to the pairwise family",
 "C30b-length-before-chunked": "missed at first: no 204/304/1xx/HEAD responses; bodiless kinds added (which also exposed the HEAD body defect, now fixed)",
 "C46b-wrap2-half-turn": "missed at first by C46 (C43 caught it): no input/set point exactly half a turn apart; added",

 "C21b-clone-drops-nact": "missed at first by C21/C12/C08: no moot frame carried a negated `let` guard; clone-guards family added to C12/C07",
 "C19b-gulp-drops-falsy": "missed at first: deck ops never queued falsy non-None elements; added with type-strict comparison",
 "C17b-int-base0": "missed at first: no leading-zero decimal whose hex reading differs; 010/012/0100... and 0b/0o tokens added",
 "C13b-newtag-prefix-count": "missed at first by C13 (C12 caught it): insular clones of two moots with prefix-related names and prefix-creating renamings added",
 "C31b-makeparser-unconditional": "missed at first: requests always reached the server whole; request-side fragmentation across service passes added",
 "C32b-linetoolong-args-swapped": "missed at first: no line ever exceeded a parser limit; oversize family added",
 "C27b-stack-refresh-every-call": "missed at first: the good phase began with a +T jump; steady variant (T/4 steps, early cut-off) added",

 "C11b-clocks-restart-in-reactivate": "missed at first by C11 (no conditional aux in the clock families; C07 caught it); clocks+conditional-aux family added to C11",

 "C05b-resuspend-skips-main": "missed at first by the quick tier (two conditional auxes on one frame were thorough-only); a same-frame two-aux subset is now in quick C05/C10/C07",
 "C10b-resuspend-skips-main": "same change as C05b, seeded independently; see there",
 "C12b-raze-first-ignores-razeable": "missed at first: no frame held a static insular clone next to reared ones; static+reared family added",
 "C20b-tracts-before-checkenter": "missed at first: no marker-guarded transition targeted a frame with an entry guard; guarded-marker family added",
 "C08b-start-readied-skips-check": "C08 has no ready/start sequences; the control/status machine BFS of C04 catches it",
 "C13-over-inode-cache-by-name": "missed at first: clone frames never shared a name with their main frame chain; name-collision family added",
 "C28-refresh-only-on-whole-send": "missed at first: server-side sends were never partial; slow-reader configurations added",
 "C15-framer-roster-by-clause-order": "missed at first: framer scaffolds only used be active|inactive; be x in roster families added",

 "C06-suspended-branch-exit": "missed at first: no family started a framer in a non-primary branch; `first` variants added to the forest family",
 "C10-reactivate-main-outline": "missed by C10 at first (chain-only family); fork family added; C05 caught it once `first` variants existed",
 "C04-start-desire-after-enter": "missed at first: bids only targeted other framers; self-bid family added",
 "C09-done-reset-in-enter": "missed at first: auxiliaries only completed in their terminal frame; `donemid` aux kind added",
 "C12-marker-key-uses-tag": "missed at first: clones were only made under one main framer and never waited on marks; clone-marker family (two main framers, colliding tags, writes as inputs) added",
 "C03-exitall-reverses-outline": "missed at first by C03 and C06: no nested framer was stopped and activated again; restart families added to C06/C07 and restart programs + static-nesting exit oracle to C03",
 "C23-flush-skips-unstamped": "missed at first: the crash oracle only ran `always` streams; sparse once/update/change streams added",
 "C27-timer-repeat-not-restart": "missed at first: the good phase completed connects at once and uptimes were short; realistic EINPROGRESS connects and 10T uptimes added",
 "C30-responder-chunked-not-reset": "C30 (single exchange per Responder) does not see it; C31 (keep-alive sequences) does",
}
rows = []
for d in sorted(glob.glob('/verif/seeded/*/')):
    name = os.path.basename(d.rstrip('/'))
    try:
        m = json.load(open(d + 'meta.json'))
    except Exception:
        continue
    c = m.get('confirmed', {})
    runs = c.get('checks_run', {})
    caught = [k for k, v in runs.items() if v == 1]
    missed = [k for k, v in runs.items() if v == 0]
    needs = (m.get('needs_to_manifest') or m.get('what_breaks') or '')
    needs = re.sub(r'\s+', ' ', needs)[:230]
    rows.append("| %s | %s | %s | %s | %s |" % (name, needs.replace('|', '/'), ", ".join(caught) or "-", ", ".join(missed) or "-", NOTES.get(name, "caught as built")))
table = "| seeded change | needs to manifest | caught by | run, silent | note |\n|---|---|---|---|---|\n" + "\n".join(rows) + "\n"
import sys
if "--write" in sys.argv:
    p = "/verif/DESIGN.md"
    s = open(p).read()
    a = s.index("<!-- SEEDTABLE -->")
    b = s.index("<!-- /SEEDTABLE -->")
    s = s[:a] + "<!-- SEEDTABLE -->\n" + table + s[b:]
    open(p, "w").write(s)
    print("DESIGN.md table updated: %d rows" % len(rows))
else:
    print(table)
