#!/usr/bin/env python3
"""Regenerate /verif/MANIFEST.json from the META dict at the top of each checks/cNN.py.
Properties without a check module are listed under not_applicable with the reason from
tools/not_applicable.json (or 'check not built yet')."""
import ast, json, os, re, sys
V = os.path.dirname(os.path.dirname(os.path.abspath(__file__)))
props = [json.loads(l) for l in open(os.path.join(V, "properties.jsonl"))]
na_path = os.path.join(V, "tools", "not_applicable.json")
na_reasons = json.load(open(na_path)) if os.path.exists(na_path) else {}
hooks_path = os.path.join(V, "tools", "hooks.json")
hooks = json.load(open(hooks_path)) if os.path.exists(hooks_path) else {}

def meta_of(path):
    tree = ast.parse(open(path).read())
    for node in tree.body:
        if isinstance(node, ast.Assign) and any(getattr(t, "id", None) == "META" for t in node.targets):
            v = node.value
            if isinstance(v, ast.Call) and getattr(v.func, "id", "") == "dict":
                return {k.arg: ast.literal_eval(k.value) for k in v.keywords}
            return ast.literal_eval(v)
    return None

checks, na, engines = [], [], {}
for p in props:
    pid = p["id"]
    path = os.path.join(V, "checks", pid.lower() + ".py")
    meta = meta_of(path) if os.path.exists(path) else None
    if pid in na_reasons or meta is None:
        na.append(dict(property_id=pid, reason=na_reasons.get(pid, "check not built yet (work in progress; see DESIGN.md section 3)")))
        continue
    checks.append(dict(
        property_id=pid,
        quick_cmd="./vcheck %s --tier quick" % pid,
        thorough_cmd="./vcheck %s --tier thorough" % pid,
        evidence_file="/verif/evidence/%s.json" % pid,
        replay_cmd_template="./vcheck %s --replay {path}" % pid,
        engine=meta.get("engine", ""),
        level_claimed=dict(category=meta["level"], text=meta["text"], design_ref=meta.get("design_ref", "DESIGN.md section 3, " + pid)),
        level_note=meta["note"],
        technique=meta["technique"],
    ))
    engines.setdefault(meta.get("engine", "core"), []).append(pid)

ENG = {
 "grid": ("mc/core.py + checks", "bounded-exhaustive input grids against exact references (pure functions)"),
 "seq": ("mc/core.py bfs()", "explicit-state BFS over operation sequences on the real objects vs a reference model"),
 "net": ("mc/net.py", "socket/TLS doubles whose every answer is a choice point; deviation-bounded DFS over environment schedules"),
 "split": ("mc/split.py", "all splits of a byte stream into k pieces fed to the real incremental parsers"),
 "flo": ("mc/flo/", "FloScript program families built by the real Builder and run by the real Skedder; monitors and reference interpreter"),
 "vfs": ("mc/vfs.py", "in-memory file system with durability model; crash after every operation"),
 "imp": ("checks/c01.py", "BFS over interpreter import states, each materialised in a fresh process"),
}
man = dict(
    version=1,
    setup_cmd="/venv/bin/python -c \"import sys; sys.path.insert(0, '/verif'); import mc.core; print('verif ok')\"",
    hooks=dict(
        guard="IOFLO_VERIF",
        enable="export IOFLO_VERIF=1 (vcheck does this); python sources are used straight from /repo's working tree, no build step",
        baseline_off_cmd="cd /repo && env -u IOFLO_VERIF /venv/bin/python -m pytest -ra -q -p no:cacheprovider --timeout=900 --continue-on-collection-errors",
        source_commits=hooks.get("source_commits", []),
        add_only=True,
    ),
    engines=[dict(name=k, path=ENG.get(k, ("", ""))[0], serves_properties=v, kind_free_text=ENG.get(k, ("", ""))[1]) for k, v in sorted(engines.items())],
    checks=checks,
    notes="All checks are driven by ./vcheck <ID>; exploration is exhaustive within the bounds each evidence file states. "
          "Known findings: /verif/known_findings.json. VERIF_REPO may point the checks at another working tree (used for seeded-change runs).",
    not_applicable=na,
)
out = os.path.join(V, "MANIFEST.json")
json.dump(man, open(out, "w"), indent=1)
open(out, "a").write("\n")
print("checks=%d not_applicable=%d" % (len(checks), len(na)))
