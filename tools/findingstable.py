#!/usr/bin/env python3
"""Regenerate the defect list of DESIGN.md section 9 from /verif/known_findings.json."""
import json, sys, collections
d = json.load(open('/verif/known_findings.json'))['findings']
fixed = [f for f in d if f['status'] == 'fixed']
known = [f for f in d if f['status'] == 'known']
out = ["Repaired (%d `fix:` commits in /repo, each reproduced by the named check on the tree before the commit):\n" % len(fixed)]
byp = collections.OrderedDict()
for f in sorted(fixed, key=lambda f: f['property']):
    byp.setdefault(f['property'], []).append(f)
for p, fs in byp.items():
    for f in fs:
        w = f['what']
        w = w.split(' -- ')[0]
        w = w.replace('fixed: property=%s %s ' % (p, f['commit']), '')
        out.append("* %s `%s` %s" % (p, f['commit'], w[:260]))
out.append("\nKnown findings (genuine, not repaired; the check prints KNOWN-FINDING and exits 0):\n")
for f in known:
    out.append("* %s key `%s`: %s" % (f['property'], f['key'][:140], f['what'][:420]))
text = "\n".join(out) + "\n"
if "--write" in sys.argv:
    p = "/verif/DESIGN.md"
    s = open(p).read()
    a = s.index("<!-- FINDINGS -->"); b = s.index("<!-- /FINDINGS -->")
    s = s[:a] + "<!-- FINDINGS -->\n" + text + s[b:]
    open(p, "w").write(s)
    print("findings written: %d fixed, %d known" % (len(fixed), len(known)))
else:
    print(text)
