#!/usr/bin/env python3
"""tools/recordfix.py <PROP> <slug> [key]  -- add a 'fixed' entry for proposed_fixes/<slug> to known_findings.json"""
import json, subprocess, sys
prop, slug = sys.argv[1], sys.argv[2]
key = sys.argv[3] if len(sys.argv) > 3 else "fix:" + slug
msg = open('/verif/proposed_fixes/%s.msg' % slug).read().strip().splitlines()
subject = msg[0]
log = subprocess.check_output(['git', '-C', '/repo', 'log', '--format=%h %s']).decode().splitlines()
sha = next((l.split()[0] for l in log if l.split(' ', 1)[1] == subject), None)
if sha is None:
    sys.exit("commit not found for %r" % subject)
p = '/verif/known_findings.json'
d = json.load(open(p))
if any(f.get('commit') == sha for f in d['findings']):
    sys.exit(0)
body = " ".join(l.strip() for l in msg[1:] if l.strip())
d['findings'].append(dict(property=prop, status="fixed", commit=sha, key=key,
                          what="fixed: property=%s %s %s -- %s" % (prop, sha, subject[5:], body[:400])))
json.dump(d, open(p, 'w'), indent=1)
open(p, 'a').write("\n")
print("recorded", prop, sha, subject)
