"""
Scheduler harness for C02 / C03: drive the real `Skedder.run` with hand-made houses of
scripted `Tasker` subclasses, observing every tick's stamp and every control each generator
received.  Nothing in ioflo is modified: observation uses a Tasker subclass (the documented
extension point) and an instance-level wrapper around `house.store.changeStamp`.

    core.use_repo() must have been called before importing this module.
"""
from mc import core

import ioflo  # noqa: F401
from ioflo.base import housing, tasking, skedding
from ioflo.base.globaling import (START, RUN, STOP, ABORT, READY, STOPPED, STARTED, RUNNING, READIED,
                                  ABORTED, ACTIVE, INACTIVE)

STATUS = {STOPPED: "stopped", STARTED: "started", RUNNING: "running", READIED: "readied", ABORTED: "aborted"}
CONTROL = {START: "start", RUN: "run", STOP: "stop", ABORT: "abort", READY: "ready"}


class ScriptTasker(tasking.Tasker):
    """Real `Tasker` control/status protocol (the inherited generator is driven unchanged) plus:
        log          shared list; one entry (name, stamp, control-name) per control received
        pre(t, control, n)  -> None | "aborted" | "return" | BaseException instance
             called before the control is handled, n = 0-based count of controls received
             "aborted": handle the control, then report status ABORTED
             "return":  end the generator (StopIteration in the skedder)
             exception: raise it from inside the generator
        post(t, control, n) called after the control has been handled (bids to others go here)
    """

    def __init__(self, log=None, pre=None, post=None, **kw):
        self.log = log if log is not None else []
        self.pre = pre
        self.post = post
        self.nctl = 0
        self.sent = []          # statuses yielded, parallel to this tasker's log entries
        super(ScriptTasker, self).__init__(**kw)

    def makeRunner(self):
        inner = tasking.Tasker.makeRunner(self)
        status = inner.send(None)
        while True:
            control = (yield status)
            n = self.nctl
            self.nctl += 1
            self.log.append((self.name, self.store.stamp, CONTROL.get(control, control)))
            act = self.pre(self, control, n) if self.pre is not None else None
            if isinstance(act, BaseException):
                self.sent.append("raised " + type(act).__name__)
                raise act
            if act == "return":
                self.sent.append("StopIteration")
                return
            status = inner.send(control)
            if act == "aborted":
                self.status = status = ABORTED
                self.desire = ABORT
            self.sent.append(STATUS.get(status, status))
            if self.post is not None:
                self.post(self, control, n)


class Result(object):
    __slots__ = ("stamps", "log", "outcome", "exc", "ready_left", "aborted_left", "mark", "interrupted")

    def __init__(self):
        self.stamps = []        # stamp of every tick that began (changeStamp calls), in order
        self.log = []           # (name, stamp, control) in global order
        self.outcome = ""
        self.exc = None
        self.ready_left = []
        self.aborted_left = []
        self.mark = None        # len(log) when the horizon / injected interrupt was raised
        self.interrupted = None # tick index that was about to begin when the interrupt was raised


def fresh_house(name="h"):
    housing.House.Clear()
    housing.ClearRegistries()
    house = housing.House(name=name)
    house.assignRegistries()
    return house


def run_house(house, tick, horizon, stamp=0.0, limit=20.0, interrupt_at=None, interrupt_exc=None, res=None):
    """Run `house` under a real Skedder.  The tick stamps are observed at `store.changeStamp`;
    when the tick with index `horizon` would begin, KeyboardInterrupt is raised there (the
    documented way to end the forever loop).  `interrupt_at`: raise `interrupt_exc` (default
    KeyboardInterrupt) at the changeStamp call that would begin tick `interrupt_at` instead."""
    if res is None:
        res = Result()
    store = house.store
    real_change = store.changeStamp

    def change(stamp_):
        k = len(res.stamps)          # index of the tick about to begin
        if interrupt_at is not None and k == interrupt_at:
            res.mark, res.interrupted = len(res.log), k
            raise (interrupt_exc if interrupt_exc is not None else KeyboardInterrupt())
        if k >= horizon:
            res.mark, res.interrupted = len(res.log), k
            raise KeyboardInterrupt()
        real_change(stamp_)
        res.stamps.append(store.stamp)

    store.changeStamp = change
    sk = skedding.Skedder(name="verif", period=tick, stamp=stamp, real=False, houses=[house])
    try:
        with core.watchdog(limit):
            try:
                sk.run()
                res.outcome = "returned"
            except core.Watchdog:
                raise
            except BaseException as ex:
                res.outcome = "raised " + type(ex).__name__
                res.exc = ex
    except core.Watchdog as ex:
        res.outcome = "watchdog"
        res.exc = ex
    finally:
        try:
            del store.changeStamp
        except AttributeError:
            pass
    res.ready_left = [t.name for t, r, p in sk.ready]
    res.aborted_left = [t.name for t, r, p in sk.aborted]
    return res


# ----------------------------------------------------------------------------- traced runs (C03)

class SendProxy(object):
    """Stands in for tasker.runner: logs every control sent to the generator, the status it
    yielded (or how it ended) and the slice of recorder events produced meanwhile."""

    def __init__(self, tasker, trace, events, tickref, before=None):
        self._before = before
        self._gen = tasker.runner
        self._name = tasker.name
        self._trace = trace
        self._events = events
        self._tick = tickref

    def send(self, control):
        i0 = len(self._events)
        ent = {"name": self._name, "control": CONTROL.get(control, control), "tick": self._tick(),
               "status": None, "events": None}
        self._trace.append(ent)
        if self._before is not None:
            exc = self._before(ent)
            if exc is not None:          # delivered in the skedder, before the generator is resumed
                ent["status"] = "not-delivered " + type(exc).__name__
                ent["events"] = []
                raise exc
        try:
            status = self._gen.send(control)
        except StopIteration:
            ent["status"] = "StopIteration"
            ent["events"] = list(self._events[i0:])
            raise
        except BaseException as ex:
            ent["status"] = "raised " + type(ex).__name__
            ent["events"] = list(self._events[i0:])
            raise
        ent["status"] = STATUS.get(status, status)
        ent["events"] = list(self._events[i0:])
        return status

    def close(self):
        return self._gen.close()

    def __next__(self):
        return next(self._gen)


class Traced(object):
    __slots__ = ("trace", "stamps", "outcome", "exc", "ready_left", "horizon_hit", "interrupted", "nrec", "parents", "held", "periods")

    def __init__(self):
        self.trace = []          # ("tick", k, stamp) markers, ("interrupt", k) and send dicts, in order
        self.stamps = []
        self.outcome = ""
        self.exc = None
        self.ready_left = []
        self.horizon_hit = False
        self.interrupted = None
        self.nrec = 0
        self.parents = {}        # (framer, frame) -> name of the frame it is nested in (static program structure)
        self.held = {}           # (framer, frame) -> names of the auxiliary framers that frame holds
        self.periods = {}        # scheduled tasker name -> period at the start of the run


def run_traced(house, events, tick=0.125, horizon=40, stamp=0.0, interrupt_at=None, interrupt_exc=None, limit=20.0,
               res=None, before_send=None):
    """Run a (built or hand-made) house under the real Skedder with every scheduled tasker's
    runner wrapped by SendProxy.  `events` is the list the recorder doer appends to.
    `interrupt_at=k`: the changeStamp call that would begin tick k raises `interrupt_exc`
    (KeyboardInterrupt by default): an interrupt between ticks k-1 and k.
    `before_send(entry)` -> None | exception: called in the skedder's context just before a control
    is forwarded to a generator; a returned exception is raised instead of forwarding."""
    if res is None:
        res = Traced()
    del events[:]
    store = house.store
    real_change = store.changeStamp

    def curtick():
        return len(res.stamps) - 1

    def change(stamp_):
        k = len(res.stamps)
        if interrupt_at is not None and k == interrupt_at:
            res.interrupted = k
            res.trace.append(("interrupt", k))
            raise (interrupt_exc if interrupt_exc is not None else KeyboardInterrupt())
        if k >= horizon:
            res.horizon_hit = True
            res.trace.append(("interrupt", k))
            raise KeyboardInterrupt()
        real_change(stamp_)
        res.stamps.append(store.stamp)
        res.trace.append(("tick", k, store.stamp))

    for t in house.taskables:
        res.periods[t.name] = t.period
        t.runner = SendProxy(t, res.trace, events, curtick, before_send)
    store.changeStamp = change
    sk = skedding.Skedder(name="verif", period=tick, stamp=stamp, real=False, houses=[house])
    try:
        with core.watchdog(limit):
            try:
                sk.run()
                res.outcome = "returned"
            except core.Watchdog:
                raise
            except BaseException as ex:
                res.outcome = "raised " + type(ex).__name__
                res.exc = ex
    except core.Watchdog as ex:
        res.outcome = "watchdog"
        res.exc = ex
    finally:
        try:
            del store.changeStamp
        except AttributeError:
            pass
    res.ready_left = [t.name for t, r, p in sk.ready]
    res.nrec = len(events)
    return res
