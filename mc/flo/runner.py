"""Shared driver for the engine-A checks: shard a family over workers, explore each program's
env histories on real ioflo, apply monitors and (optionally) compare with the reference."""
import itertools
import time
from mc import core


def _shard(gen, shard, nshards):
    for i, item in enumerate(gen):
        if i % nshards == shard:
            yield i, item


def make_worker(family_fn, on_prog):
    """family_fn() -> iterable of (label, prog, meta); on_prog(part, idx, label, prog, meta)"""
    def work(arg):
        shard, nshards = arg
        core.use_repo()
        p = core.Part()
        for idx, (label, prog, meta) in _shard(family_fn(), shard, nshards):
            on_prog(p, idx, label, prog, meta)
        return p
    return work


def run_family(ck, family_fn, on_prog, nshards=None):
    n = nshards or core.NPROC * 4
    parts = core.pmap(make_worker(family_fn, on_prog), [(i, n) for i in range(n)])
    # merge in shard order; violations: keep the one with the smallest program index per group
    best = {}
    for p in parts:
        for v in p.violations:
            g = v[0]
            if g not in best or v[4] < best[g][4]:
                best[g] = v
        p.violations = []
    ck.merge(parts)
    for g in sorted(best, key=lambda g: best[g][4]):
        v = best[g]
        ck.part.violations.append(v[:4])


def violation(part, idx, group, example, what, replay):
    """Like Part.violation but remembers the family index so the globally first example wins."""
    for v in part.violations:
        if v[0] == group:
            return
    part.violations.append((group, str(example), what, core.jsonable(replay), idx))
