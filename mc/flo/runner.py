"""Shared driver for the engine-A checks: shard a family over workers, explore each program's
env histories on real ioflo, apply monitors and (optionally) compare with the reference."""
import itertools
import time
from mc import core


def _shard(gen, shard, nshards):
    for i, item in enumerate(gen):
        if i % nshards == shard:
            yield i, item


def make_worker(family_fn, on_prog):
    """family_fn() -> iterable of (label, prog, meta); on_prog(part, idx, label, prog, meta)"""
    def work(arg):
        shard, nshards = arg
        core.use_repo()
        p = core.Part()
        for idx, (label, prog, meta) in _shard(family_fn(), shard, nshards):
            on_prog(p, idx, label, prog, meta)
        return p
    return work


def run_family(ck, family_fn, on_prog, nshards=None):
    n = nshards or core.NPROC * 4
    parts = core.pmap(make_worker(family_fn, on_prog), [(i, n) for i in range(n)])
    # merge in shard order; violations: keep the one with the smallest program index per group
    best = {}
    for p in parts:
        for v in p.violations:
            g = v[0]
            if g not in best or v[4] < best[g][4]:
                best[g] = v
        p.violations = []
    ck.merge(parts)
    for g in sorted(best, key=lambda g: best[g][4]):
        v = best[g]
        ck.part.violations.append(v[:4])


def violation(part, idx, group, example, what, replay):
    """Like Part.violation but remembers the family index so the globally first example wins."""
    for v in part.violations:
        if v[0] == group:
            return
    part.violations.append((group, str(example), what, core.jsonable(replay), idx))


def cmp_full(fields=(0, 1, 3, 4, 5, 6, 7, 8), ctxs=None):
    """Comparison of a real run with the reference: per tick events (optionally restricted to
    contexts) and the selected snapshot fields of every framer; run length; trailing events."""
    def cmp(rr, ro):
        n = min(len(rr.ticks), len(ro.ticks))
        for k in range(n):
            a = [e for e in rr.events[k] if ctxs is None or e[2] in ctxs]
            b = [e for e in ro.events[k] if ctxs is None or e[2] in ctxs]
            if a != b:
                return ("events-differ-from-reference", "tick %d events %r, reference %r" % (k, a, b))
            realby = {x[0]: x for x in rr.ticks[k]["framers"]}
            refnames = set()
            for y in ro.ticks[k]["framers"]:
                refnames.add(y[0])
                x = realby.get(y[0])
                if x is None:
                    return ("framer-missing", "tick %d framer %s exists in the reference but not in ioflo" % (k, y[0]))
                xa = tuple(tuple(x[i]) if isinstance(x[i], (list, tuple)) else x[i] for i in fields)
                ya = tuple(tuple(y[i]) if isinstance(y[i], (list, tuple)) else y[i] for i in fields)
                if xa != ya:
                    return ("state-differs-from-reference", "tick %d snapshot fields %r: %r, reference %r" % (k, fields, xa, ya))
            for x in rr.ticks[k]["framers"]:
                if x[0] not in refnames and (x[4] is not None or x[5]):
                    return ("unexpected-live-framer", "tick %d framer %s (moot or razed in the reference) has active frames %r" % (k, x[0], x[5]))
            rs = {p_: v for p_, v in rr.ticks[k]["shares"].items()
                  if p_ in ro.ticks[k]["shares"] or v[1] is not None}   # shares only pre-created at resolve time (never written) are ignored
            if rs != ro.ticks[k]["shares"]:
                return ("shares-differ-from-reference", "tick %d shares %r, reference %r" % (k, rs, ro.ticks[k]["shares"]))
            if rr.ticks[k].get("marks") != ro.ticks[k].get("marks"):
                return ("marks-differ-from-reference", "tick %d marks %r, reference %r" % (k, rr.ticks[k].get("marks"), ro.ticks[k].get("marks")))
        if len(rr.ticks) != len(ro.ticks):
            return ("run-length-differs", "real ran %d ticks, reference %d" % (len(rr.ticks), len(ro.ticks)))
        a = [e for e in rr.events[-1] if ctxs is None or e[2] in ctxs]
        b = [e for e in ro.events[-1] if ctxs is None or e[2] in ctxs]
        if a != b:
            return ("final-events-differ-from-reference", "events of the stop/abort sweep %r, reference %r" % (a, b))
        return None
    return cmp


def explore_and_check(p, idx, label, prog, mons=(), cmp=None, depth=None, alphabet=None, back_alphabet=None,
                      watch=(), sample_every=499, outcome=None, canon_paths=None, value_caps=None):
    """BFS over env histories of one program; monitors mons: fn(prog, rr, envf) -> [(group, detail)];
    cmp(rr, ro) -> None | (group, detail) against the reference interpreter."""
    from mc.flo import explore, families as F, lang, conform

    def on_run(prog, envf, envb, rr, text, br):
        p.evaluations += 1
        ex = "%s envf=%s envb=%s" % (label, sorted(envf.items()), sorted(envb.items())) if envb else \
             "%s env=%s" % (label, sorted(envf.items()))
        if rr is None:
            violation(p, idx, "build-failed|%s|%s" % (br.kind, str(br.exc)[:80]), label,
                      "family program does not build: %s %r" % (br.kind, br.exc), dict(text=text))
            return True
        if rr.outcome != "returned":
            violation(p, idx, "run-" + rr.outcome, ex, "run did not return: %s %r" % (rr.outcome, rr.exc), dict(text=text, envf=envf, envb=envb))
            return True
        for m in mons:
            probs = m(prog, rr, envf)
            if probs:
                g, d = probs[0]
                violation(p, idx, g, ex, d, dict(text=text, envf=envf, envb=envb, problems=probs[:5]))
                return True
        if cmp is not None:
            try:
                ro = conform.run_ref(prog, len(rr.ticks), envf, envb, watch=watch)
            except Exception as exn:
                raise core.BrokenCheck("reference interpreter failed on %s: %r" % (label, exn))
            d = cmp(rr, ro)
            if d:
                violation(p, idx, d[0], ex, d[1], dict(text=text, envf=envf, envb=envb))
                return True
        if outcome:
            p.outcome(outcome(rr))
        else:
            last = rr.ticks[-1]["framers"] if rr.ticks else []
            p.outcome("|".join("%s/%s" % (f[1], f[4]) for f in last[:2]))
        return False

    st = explore.explore(prog, alphabet or F.ENV_ALPHABET, depth=depth or (6 if core.TIER == "quick" else 8),
                         on_run=on_run, back_alphabet=back_alphabet, watch=watch, canon_paths=canon_paths, value_caps=value_caps)
    p.states += st["states"]
    p.transitions += st["transitions"]
    p.traces += st["runs"]
    p.capped = p.capped or st["capped"]
    if st["capped"]:
        p.notes["programs whose BFS hit the depth cap before fixpoint"] += 1
        p.extra.setdefault("first_capped_program", label)
    p.nontrivial(label)
    if idx % sample_every == 0:
        p.sample(dict(label=label, script=lang.emit(prog), bfs=st))
    return st
