"""
Engine A: parameterised FloScript program families, each enumerated completely and
deterministically (simplest first) inside its bounds.  A family yields (label, prog, meta).
"""
import itertools

E0 = ("cmp", "env.e0", "==", 1, None, False)
E1 = ("cmp", "env.e1", "==", 1, None, False)
BITS = {"e0": E0, "e1": E1}
ENV_INITS = [("env.e0", 0), ("env.e1", 0)]
ENV_ALPHABET = [{"env.e0": 0, "env.e1": 0}, {"env.e0": 1, "env.e1": 0},
                {"env.e0": 0, "env.e1": 1}, {"env.e0": 1, "env.e1": 1}]


def recs(name, ctxs=("enter", "exit", "recur")):
    suffix = {"enter": "en", "exit": "ex", "recur": "re", "renter": "rn", "rexit": "rx", "benter": "be", "precur": "pr"}
    return [("rec", c, "%s.%s" % (name, suffix[c])) for c in ctxs]


ALLCTX = ("benter", "enter", "renter", "precur", "recur", "exit", "rexit")


def forests(n):
    """All rooted labelled forests on frames f0..f(n-1): parent[i] in {None} U others, acyclic."""
    names = ["f%d" % i for i in range(n)]
    for parents in itertools.product([None] + list(range(n)), repeat=n):
        ok = True
        for i in range(n):
            seen = set()
            j = i
            while j is not None:
                if j in seen:
                    ok = False
                    break
                seen.add(j)
                j = parents[j]
            if not ok:
                break
        if ok and all(parents[i] != i for i in range(n)):
            yield names, parents


def forest_prog(names, parents, gos, ctxs=ALLCTX, under=None, auxif=None, extra_framers=(), tick=0.125,
                first=None, bid=None):
    """gos: list of (src index, target name|'next'|'me', bit|None)
    under: (parent index, child index) -> `under child` override inside parent (child must be `in` parent)
    auxif: (frame index, aux name, bit, position) position 'before'|'after' the frame's gos"""
    frames = []
    for i, nm in enumerate(names):
        items = recs(nm, ctxs)
        pre = []
        for (src, tgt, bit) in gos:
            if src == i:
                pre.append(("go", tgt, [BITS[bit]] if bit else []))
        if auxif and auxif[0] == i:
            a = ("auxif", auxif[1], [BITS[auxif[2]]] if auxif[2] else [E0])
            pre = [a] + pre if auxif[3] == "before" else pre + [a]
        if bid and bid[0] == i:
            items = items + [("bid", bid[1], bid[2], ["me"], None)]
        fr = dict(name=nm, over=names[parents[i]] if parents[i] is not None else None, items=items + pre)
        if under and under[0] == i:
            fr["under"] = names[under[1]]
        frames.append(fr)
    fm = dict(name="m", schedule="active", frames=frames)
    if first:
        fm["first"] = first
    return dict(tick=tick, inits=list(ENV_INITS), framers=[fm] + list(extra_framers))


def aux_framer(name, kind="repeat1", ctxs=("enter", "exit", "recur")):
    """Small auxiliary framers:
       repeat1 : x1 -(repeat 1)-> x2 which does `done` on entry
       never   : single frame, never done
       now     : single frame that does `done` on entry (completes in its first run)
       guard1  : like repeat1 but first frame guarded by e1"""
    x1, x2 = name + "1", name + "2"
    if kind == "donemid":
        # completes in a NON-terminal frame and keeps transitioning afterwards (done must stay set)
        x3 = name + "3"
        frames = [dict(name=x1, items=recs(x1, ctxs) + [("repeat", 1)]),
                  dict(name=x2, items=recs(x2, ctxs) + [("done", "enter", None), ("repeat", 1)]),
                  dict(name=x3, items=recs(x3, ctxs) + [("go", "me", [("recurred", ">=", 2, False)])])]
        return dict(name=name, schedule="aux", frames=frames)
    if kind == "cycle":
        # never done; alternates between two frames every second run (its transitions and counters are observable)
        frames = [dict(name=x1, items=recs(x1, ctxs) + [("repeat", 1)], next=x2),
                  dict(name=x2, items=recs(x2, ctxs) + [("repeat", 1)], next=x1)]
        return dict(name=name, schedule="aux", frames=frames)
    if kind == "never":
        frames = [dict(name=x1, items=recs(x1, ctxs))]
    elif kind == "now":
        frames = [dict(name=x1, items=recs(x1, ctxs) + [("done", "enter", None)])]
    elif kind == "guard1":
        frames = [dict(name=x1, items=[("let", [E1])] + recs(x1, ("benter",) + tuple(ctxs)) + [("repeat", 1)]),
                  dict(name=x2, items=recs(x2, ctxs) + [("done", "enter", None)])]
    else:
        frames = [dict(name=x1, items=recs(x1, ctxs) + [("repeat", 1)]),
                  dict(name=x2, items=recs(x2, ctxs) + [("done", "enter", None)])]
    return dict(name=name, schedule="aux", frames=frames)


def fam_forest(n, with_aux=True, pairs=True, ctxs=ALLCTX, aux_kinds=("repeat1", "never", "now")):
    """Forests on n frames x {one or two guarded transitions} x optional conditional aux."""
    for names, parents in forests(n):
        targets = list(names) + ["next", "me"]
        singles = [(s, t, b) for s in range(n) for t in targets for b in ("e0",)
                   if not (t == "next" and s == n - 1)]      # the last frame has no lexical next
        # no transition at all
        yield ("forest%d/%s/none" % (n, parents), forest_prog(names, parents, [], ctxs), dict(parents=parents))
        for g in singles:
            yield ("forest%d/%s/%s" % (n, parents, g), forest_prog(names, parents, [g], ctxs), dict(parents=parents))
        if pairs:
            for g1 in singles:
                for s in range(n):
                    for t in targets:
                        if t == "next" and s == n - 1:
                            continue
                        g2 = (s, t, "e1")
                        yield ("forest%d/%s/%s+%s" % (n, parents, g1, g2),
                               forest_prog(names, parents, [g1, g2], ctxs), dict(parents=parents))
        # primary-under override: for every frame with >= 2 children make the last child primary
        for p in range(n):
            kids = [i for i in range(n) if parents[i] == p]
            if len(kids) >= 2:
                for g in singles:
                    yield ("forest%d/%s/under%d>%d/%s" % (n, parents, p, kids[-1], g),
                           forest_prog(names, parents, [g], ctxs, under=(p, kids[-1])), dict(parents=parents))
        # frames that are a NON-primary child: only reachable as `first` or by an explicit transition
        nonprimary = [i for i in range(n) if parents[i] is not None and
                      any(parents[j] == parents[i] for j in range(i))]
        for f in nonprimary:
            for g in singles:
                yield ("forest%d/%s/first%d/%s" % (n, parents, f, g),
                       forest_prog(names, parents, [g], ctxs, first=names[f]), dict(parents=parents))
        if with_aux:
            for kind in aux_kinds:
                ax = aux_framer("x", kind)
                for m in range(n):
                    for pos in ("before", "after"):
                        for g in singles:
                            yield ("forest%d/%s/auxif%d-%s-%s/%s" % (n, parents, m, kind, pos, g),
                                   forest_prog(names, parents, [(g[0], g[1], "e1")], ctxs,
                                               auxif=(m, "x", "e0", pos), extra_framers=[ax]),
                                   dict(parents=parents))
                            for f in nonprimary:     # start in a non-primary branch under / beside the aux's main frame
                                yield ("forest%d/%s/auxif%d-%s-%s/first%d/%s" % (n, parents, m, kind, pos, f, g),
                                       forest_prog(names, parents, [(g[0], g[1], "e1")], ctxs, first=names[f],
                                                   auxif=(m, "x", "e0", pos), extra_framers=[ax]),
                                       dict(parents=parents))


# ------------------------------------------------------------------------------- C08 guards

def guarded_forest_prog(names, parents, guards, go, aux_at=(), aux_kind="guard1", ctxs=("benter", "enter", "exit", "recur")):
    """guards: tuple per frame of None|'e0'|'e1' -> `let me if env.eX == 1` placed BEFORE the frame's benter
    recorder, so a benter event proves every guard of that frame held.  go: (src, target, bit).
    aux_at: frame indexes that carry the plain (original) auxiliary `x`."""
    frames = []
    for i, nm in enumerate(names):
        items = []
        if guards[i]:
            items.append(("let", [BITS[guards[i]]]))
        items += recs(nm, ctxs)
        if i in aux_at:
            items.append(("aux", "x"))
        if go and go[0] == i:
            items.append(("go", go[1], [BITS[go[2]]] if go[2] else []))
        frames.append(dict(name=nm, over=names[parents[i]] if parents[i] is not None else None, items=items))
    framers = [dict(name="m", schedule="active", frames=frames)]
    if aux_at:
        framers.append(aux_framer("x", aux_kind))
    return dict(tick=0.125, inits=list(ENV_INITS), framers=framers)


def fam_guards(n, with_aux=True):
    for names, parents in forests(n):
        targets = list(names) + ["next", "me"]
        gos = [(s, t, "e0") for s in range(n) for t in targets if not (t == "next" and s == n - 1)]
        for guards in itertools.product((None, "e1"), repeat=n):
            if not any(guards):
                continue
            for go in gos:
                yield ("guards%d/%s/%s/%s" % (n, parents, guards, go),
                       guarded_forest_prog(names, parents, guards, go), dict(parents=parents))
        if with_aux:
            none = (None,) * n
            # one frame carries an aux whose first frame is guarded by e1
            for a in range(n):
                for go in gos:
                    yield ("guards%d/%s/aux@%d/%s" % (n, parents, a, go),
                           guarded_forest_prog(names, parents, none, go, aux_at=(a,)), dict(parents=parents))
            # the same original aux on two frames (ownership)
            for a, b in itertools.combinations(range(n), 2):
                for kind in ("never", "repeat1"):
                    for go in gos:
                        yield ("guards%d/%s/aux@%d+%d-%s/%s" % (n, parents, a, b, kind, go),
                               guarded_forest_prog(names, parents, none, go, aux_at=(a, b), aux_kind=kind),
                               dict(parents=parents))


# ------------------------------------------------------------------------------- C09 plain auxiliaries

def fam_plain_aux(quick=True):
    """main framer: f0 > {f1, f2}, f3 ; plain aux slots on each frame from {none, x, y}; x of several kinds;
    transition/done-condition variants; `done` verbs."""
    names = ["f0", "f1", "f2", "f3"]
    parents = (None, 0, 0, None)
    ctxs = ("enter", "exit", "recur")
    variants = {
        "bits": {1: [("go", "f2", [E0])], 2: [("go", "f3", [E1])], 3: [("go", "f1", [E0])]},
        "auxdone": {1: [("go", "next", [("auxdone", "x", None, False)])], 2: [("go", "f3", [("auxdone", "any", None, False)])],
                    3: [("go", "f0", [E0])]},
        "allin": {0: [("go", "f3", [("auxdone", "all", "f0", False), E1])], 3: [("go", "f1", [E0])],
                  1: [("go", "f2", [("auxdone", "x", "me", False)])]},
        "taskerdone": {1: [("go", "f2", [("done", "x", False)])], 2: [("go", "f3", [("done", "y", True), E1])],
                       3: [("go", "f0", [E0])]},
    }
    kinds = ("repeat1", "never", "now", "donemid")
    slots_all = list(itertools.product((None, "x", "y", "xy", "yx"), repeat=4))
    for xkind in kinds:
        for vname, var in variants.items():
            for slots in slots_all:
                if not any(slots):
                    continue
                if quick and sum(len(s) for s in slots if s) > 2:
                    continue
                if not quick and sum(len(s) for s in slots if s) > 4:
                    continue
                if vname in ("auxdone", "allin") and not any(s and "x" in s for s in slots):
                    continue          # `aux x is done` needs x to be an auxiliary of this framer
                frames = []
                for i, nm in enumerate(names):
                    items = recs(nm, ctxs)
                    for ch in (slots[i] or ""):
                        items.append(("aux", ch))
                    items += var.get(i, [])
                    frames.append(dict(name=nm, over=names[parents[i]] if parents[i] is not None else None, items=items))
                framers = [dict(name="m", schedule="active", frames=frames), aux_framer("x", xkind), aux_framer("y", "repeat1")]
                yield ("plainaux/%s/%s/%s" % (xkind, vname, slots),
                       dict(tick=0.125, inits=list(ENV_INITS), framers=framers), dict(slots=slots))
    # the `done <aux>` verb issued by the main framer
    for ctx in ("enter", "recur", "exit"):
        frames = [dict(name="f0", items=recs("f0", ctxs) + [("aux", "x"), ("go", "f1", [E0])]),
                  dict(name="f1", items=recs("f1", ctxs) + [("aux", "x"), ("done", ctx, ["x"]), ("go", "f0", [("auxdone", "x", None, False), E1])])]
        framers = [dict(name="m", schedule="active", frames=frames), aux_framer("x", "never")]
        yield ("plainaux/doneverb/%s" % ctx, dict(tick=0.125, inits=list(ENV_INITS), framers=framers), dict())


    # a HIERARCHICAL aux (wtop > {w1, w2}, inner transitions on e1, carrying a nested aux h) shared by three main frames
    # visited in turn: every activation must enter top-down from its first frame, inner transitions must not re-enter
    # wtop (h lives exactly as long as wtop), and every exit is bottom-up - on the 2nd, 3rd ... activation too
    for hkind in ("repeat1", "never"):
        for nmain in (2, 3):
            w = dict(name="w", schedule="aux", frames=[
                dict(name="wtop", items=recs("wtop", ctxs) + [("aux", "h")]),
                dict(name="w1", over="wtop", items=recs("w1", ctxs) + [("go", "w2", [E1])]),
                dict(name="w2", over="wtop", items=recs("w2", ctxs) + [("go", "w1", [E1])])])
            mains = ["f%d" % i for i in range(nmain)]
            frames = [dict(name=nm, items=recs(nm, ctxs) + [("aux", "w"), ("go", mains[(i + 1) % nmain], [E0])])
                      for i, nm in enumerate(mains)]
            yield ("plainaux/nested/%s/mains%d" % (hkind, nmain),
                   dict(tick=0.125, inits=list(ENV_INITS),
                        framers=[dict(name="m", schedule="active", frames=frames), w, aux_framer("h", hkind)]), dict())
    # an auxiliary (ordinary, named clone, insular clone) whose own FIRST frame carries the shared original aux `sh`: the frame
    # carrying it can only be entered when `sh` is free or released by the same transition - the start check of the
    # auxiliary (clone or not) must look at the auxes of its first outline
    for how in ("aux", "clone", "mine"):
        for holder in ("top", "sib"):
            inner = dict(name="moo", schedule="moot" if how != "aux" else "aux", frames=[
                dict(name="m1", items=recs("m1", ctxs) + [("aux", "sh")])])
            carry = ("aux", "moo") if how == "aux" else ("auxclone", "moo", "worker" if how == "clone" else "mine")
            if holder == "top":      # sh held by the over frame, which the transition a -> b does not exit
                frames = [dict(name="top", items=recs("top", ctxs) + [("aux", "sh")]),
                          dict(name="a", over="top", items=recs("a", ctxs) + [("go", "b", [E0])]),
                          dict(name="b", over="top", items=recs("b", ctxs) + [carry, ("go", "a", [E1])])]
            else:                    # sh held by the sibling a, which the transition exits: must be allowed
                frames = [dict(name="top", items=recs("top", ctxs)),
                          dict(name="a", over="top", items=recs("a", ctxs) + [("aux", "sh"), ("go", "b", [E0])]),
                          dict(name="b", over="top", items=recs("b", ctxs) + [carry, ("go", "a", [E1])])]
            yield ("plainaux/nested-shared/%s/held-by-%s" % (how, holder),
                   dict(tick=0.125, inits=list(ENV_INITS),
                        framers=[dict(name="m", schedule="active", frames=frames), inner, aux_framer("sh", "never")]), dict())
    # done conditions naming a frame of ANOTHER framer, while the observing framer has a frame of the SAME name with its own
    # (differently behaving) auxiliary: `<any|all|aux X> in frame work in framer alpha is done`
    for which in ("all", "any", "slow"):
        for decl in ("ab", "ba"):
            for neg in (False, True):
                alpha = dict(name="alpha", schedule="active", frames=[
                    dict(name="work", items=recs("work", ctxs) + [("aux", "slow"), ("go", "rest", [E0])]),
                    dict(name="rest", items=recs("rest", ctxs) + [("go", "work", [E0])])])
                beta = dict(name="beta", schedule="active", frames=[
                    dict(name="work", items=recs("work", ctxs) + [("aux", "quick"), ("go", "fin", [("auxdonex", which, "work", "alpha", neg)])]),
                    dict(name="fin", items=recs("fin", ctxs) + [("go", "work", [E1])])])
                yield ("plainaux/cross-framer-done/%s/%s/neg%d" % (which, decl, neg),
                       dict(tick=0.125, inits=list(ENV_INITS),
                            framers=([alpha, beta] if decl == "ab" else [beta, alpha]) + [aux_framer("slow", "repeat1"), aux_framer("quick", "now")]),
                       dict())
    # hand-over: original aux x is HELD by the active frame a while a transition tries to enter p > q; the target is
    # enterable only if x sits on at most one of p, q (it is released by a's exit), whoever holds it at the time
    for xkind in ("repeat1", "never"):
        for mask in range(1, 8):
            for target in ("q", "p"):
                for back in ("a", "r"):
                    on = dict(a=mask & 1, p=mask & 2, q=mask & 4)
                    def fr(nm, over=None, extra=()):
                        return dict(name=nm, over=over, items=recs(nm, ctxs) + ([("aux", "x")] if on.get(nm) else []) + list(extra))
                    frames = [fr("a", None, [("go", target, [E0])]), fr("p", None, [("go", back, [E1])]), fr("q", "p"),
                              fr("r", None, [("go", "a", [E0]), ("go", "q", [E1])])]
                    framers = [dict(name="m", schedule="active", frames=frames), aux_framer("x", xkind)]
                    yield ("plainaux/handover/%s/mask%d/to-%s/back-%s" % (xkind, mask, target, back),
                           dict(tick=0.125, inits=list(ENV_INITS), framers=framers), dict())


# ------------------------------------------------------------------------------- C10 conditional auxiliaries

def fam_cond_aux():
    """chain f0 > f1 > f2 plus root f3; conditional aux `x if e0` at depth d; one transition on e1 from a chain
    frame to any frame, before/after the aux line when on the main frame; precur recorders first (.pr) and last (.pz)."""
    names = ["f0", "f1", "f2", "f3"]
    parents = (None, 0, 1, None)
    ctxs = ("enter", "exit", "recur", "precur")
    kinds = ("now", "repeat1", "repeat2", "never", "guard1")
    for kind in kinds:
        for d in (0, 1, 2):
            for s in (0, 1, 2, 3):
                for t in ("f0", "f1", "f2", "f3", "me", None):
                    for pos in (("before", "after") if s == d and t is not None else ("after",)):
                        if t is None and s != 0:
                            continue
                        frames = []
                        for i, nm in enumerate(names):
                            items = recs(nm, ctxs)
                            pre = []
                            if t is not None and s == i:
                                pre.append(("go", t, [E1]))
                            if i == d:
                                a = ("auxif", "x", [E0])
                                pre = [a] + pre if pos == "after" else pre + [a]
                            items = items + pre + [("rec", "precur", nm + ".pz")]
                            if i == 3 and not (s == 3 and t is not None):
                                items.append(("go", "f0", [E1]))
                            frames.append(dict(name=nm, over=names[parents[i]] if parents[i] is not None else None, items=items))
                        framers = [dict(name="m", schedule="active", frames=frames), aux_framer_ext("x", kind)]
                        yield ("condaux/%s/d%d/go%s->%s/%s" % (kind, d, s, t, pos),
                               dict(tick=0.125, inits=list(ENV_INITS), framers=framers), dict(depth=d, main=names[d]))
                        if d >= 1 and kind in ("repeat1", "never", "repeat2"):
                            # the same program with the frames DECLARED under-first (f3, f2 in f1, f1 in f0, f0): heads and
                            # outlines must not depend on declaration order
                            fm = dict(name="m", schedule="active", frames=list(reversed(frames)), first="f0")
                            yield ("condaux/%s/d%d/go%s->%s/%s/declared-under-first" % (kind, d, s, t, pos),
                                   dict(tick=0.125, inits=list(ENV_INITS), framers=[fm, aux_framer_ext("x", kind)]),
                                   dict(depth=d, main=names[d]))


def fam_cond_aux_fork():
    """fork f0 > {f1, f2} plus root f3; conditional aux on f0; the framer starts in the primary (f1) or the
    NON-primary branch (f2), so truncating / restoring the outline must follow the active frame, not f0's own outline."""
    names = ["f0", "f1", "f2", "f3"]
    parents = (None, 0, 0, None)
    ctxs = ("enter", "exit", "recur", "precur")
    for kind in ("now", "repeat1", "repeat2", "never"):
        for first in (None, "f2"):
            for s in (0, 1, 2):
                for t in ("f0", "f1", "f2", "f3", "me", None):
                    for pos in (("before", "after") if s == 0 and t is not None else ("after",)):
                        if t is None and s != 0:
                            continue
                        frames = []
                        for i, nm in enumerate(names):
                            items = recs(nm, ctxs)
                            pre = []
                            if t is not None and s == i:
                                pre.append(("go", t, [E1]))
                            if i == 0:
                                a = ("auxif", "x", [E0])
                                pre = [a] + pre if pos == "after" else pre + [a]
                            items = items + pre + [("rec", "precur", nm + ".pz")]
                            if i == 3:
                                items.append(("go", "f2", [E1]))
                            frames.append(dict(name=nm, over=names[parents[i]] if parents[i] is not None else None, items=items))
                        fm = dict(name="m", schedule="active", frames=frames)
                        if first:
                            fm["first"] = first
                        yield ("condaux-fork/%s/first-%s/go%s->%s/%s" % (kind, first, s, t, pos),
                               dict(tick=0.125, inits=list(ENV_INITS), framers=[fm, aux_framer_ext("x", kind)]), dict(depth=0, main="f0"))


def aux_framer_ext(name, kind):
    if kind == "repeat2":
        x1, x2 = name + "1", name + "2"
        ctxs = ("enter", "exit", "recur")
        return dict(name=name, schedule="aux", frames=[
            dict(name=x1, items=recs(x1, ctxs) + [("repeat", 2)]),
            dict(name=x2, items=recs(x2, ctxs) + [("done", "enter", None)])])
    return aux_framer(name, kind)


# ------------------------------------------------------------------------------- C11 clocks

DYADIC_TICKS = (0.0625, 0.125, 0.25, 0.5, 1.0)
DECIMAL_TICKS = (0.1, 0.05, 0.2, 0.3)


def fam_clocks(ticks):
    """flat chains a -> b -> c -> a driven only by elapsed / recurred; also run as an auxiliary."""
    ctxs = ("enter", "exit")
    for tick in ticks:
        Ts = sorted(set([0.0, tick / 2, tick, 1.5 * tick, 2 * tick, 3 * tick, 0.3, 1.0]))
        Ns = (0, 1, 2, 3, 5)
        for T in Ts:
            for N in Ns:
                chains = {
                    "cycle": [dict(name="a", items=recs("a", ctxs) + [("timeout", T)]),
                              dict(name="b", items=recs("b", ctxs) + [("repeat", N)]),
                              dict(name="c", next="a", items=recs("c", ctxs) + [("go", "next", [("elapsed", ">=", T, False)])])],
                    "reenter": [dict(name="a", items=recs("a", ctxs) + [("go", "me", [("recurred", ">=", N, False), ("elapsed", "<", 2 * T, False)]), ("timeout", 2 * T)]),
                                dict(name="b", items=recs("b", ctxs) + [("go", "c", [("elapsed", ">", T, False)]), ("repeat", N + 1)]),
                                dict(name="c", next="a", items=recs("c", ctxs) + [("timeout", T), ("repeat", N)])],
                }
                for cname, frames in chains.items():
                    if cname == "reenter" and N == 0:
                        continue   # `go me if recurred >= 0` re-enters every tick: still valid but uninformative
                    yield ("clocks/%r/%s/T%r/N%d/main" % (tick, cname, T, N),
                           dict(tick=tick, inits=[], framers=[dict(name="m", schedule="active", frames=frames)]),
                           dict(tick=tick, T=T, N=N, clocked=("m",)))
                    main = [dict(name="f0", items=recs("f0", ctxs) + [("aux", "x")])]
                    yield ("clocks/%r/%s/T%r/N%d/aux" % (tick, cname, T, N),
                           dict(tick=tick, inits=[], framers=[dict(name="m", schedule="active", frames=main),
                                                              dict(name="x", schedule="aux", frames=frames)]),
                           dict(tick=tick, T=T, N=N, clocked=("x",)))
                    # the same chain as a CLONE of a moot framer (named and insular): implicit timeout / repeat
                    # conditions must read the clone's own clocks
                    if tick in (0.125, 0.1) and T in Ts[:6:2] + [Ts[-1]] and N in (0, 2, 5):
                        for tag, clname in (("c1", "m_c1"), ("mine", "m_mo1")):
                            main = [dict(name="f0", items=recs("f0", ctxs) + [("auxclone", "mo", tag)])]
                            yield ("clocks/%r/%s/T%r/N%d/clone-%s" % (tick, cname, T, N, tag),
                                   dict(tick=tick, inits=[], framers=[dict(name="m", schedule="active", frames=main),
                                                                      dict(name="mo", schedule="moot", frames=frames)]),
                                   dict(tick=tick, T=T, N=N, clocked=(clname,)))


# ------------------------------------------------------------------------------- C04 bids and fiats

CONTROLS = ("start", "run", "stop", "abort", "ready")


def fam_bids(js=(0, 1, 2, 3)):
    """controller x issues one or two bids on target y at tick j; all order placements, y active/inactive,
    y period 0 or 2 ticks; second bid in the same action list / a later context of the same tick / next tick."""
    tick = 0.125
    ctxs = ("enter", "exit", "recur")
    for xo in ("front", "mid", "back"):
        for yo in ("front", "mid", "back"):
            for decl in ("xy", "yx"):
                for ysched in ("active", "inactive"):
                    for yper in (0.0, 0.25):
                        for j in js:
                            for c1 in CONTROLS:
                                seconds = [None] + [(c2, where) for c2 in CONTROLS for where in ("same", "recur", "nexttick")]
                                for sec in seconds:
                                    x0 = dict(name="x0", items=recs("x0", ctxs) + [("go", "next", [("recurred", ">=", j, False)])])
                                    items = recs("x1", ctxs) + [("bid", "enter", c1, ["y"], None)]
                                    x2items = recs("x2", ctxs)
                                    if sec:
                                        if sec[1] == "same":
                                            items.append(("bid", "enter", sec[0], ["y"], None))
                                        elif sec[1] == "recur":
                                            items.append(("bid", "recur", sec[0], ["y"], None))
                                        else:
                                            x2items.append(("bid", "enter", sec[0], ["y"], None))
                                    items.append(("go", "next", [("recurred", ">=", 1, False)]))
                                    x = dict(name="x", schedule="active", order=xo,
                                             frames=[x0, dict(name="x1", items=items), dict(name="x2", items=x2items)])
                                    y = dict(name="y", schedule=ysched, order=yo, period=yper,
                                             frames=[dict(name="y0", items=recs("y0", ctxs) + [("go", "next", [("recurred", ">=", 2, False)])]),
                                                     dict(name="y1", items=recs("y1", ctxs))])
                                    framers = [x, y] if decl == "xy" else [y, x]
                                    yield ("bids/%s%s/%s/%s/p%r/j%d/%s/%s" % (xo[0], yo[0], decl, ysched, yper, j, c1, sec),
                                           dict(tick=tick, inits=[], framers=framers), dict())


def fam_selfbids():
    """a framer bids on itself (me / own name / all) from its FIRST frame, i.e. inside the very run that processes
    START, or from a later frame; the bid must survive that run and be the control it receives next."""
    ctxs = ("enter", "exit", "recur")
    for c in CONTROLS:
        for tgt in ("me", "x", "all"):
            for ctx in ("enter", "recur", "exit"):
                for where in ("first", "second"):
                    for decl in ("xy", "yx"):
                        for period in (None, 0.25):
                            b = ("bid", ctx, c, [tgt], period if c in ("start", "run", "ready") else None)
                            x0 = recs("x0", ctxs) + ([b] if where == "first" else []) + [("go", "next", [("recurred", ">=", 2, False)])]
                            x1 = recs("x1", ctxs) + ([b] if where == "second" else []) + [("go", "x0", [("recurred", ">=", 2, False)])]
                            x = dict(name="x", schedule="active", frames=[dict(name="x0", items=x0), dict(name="x1", items=x1)])
                            y = dict(name="y", schedule="active", frames=[dict(name="y0", items=recs("y0", ctxs))])
                            yield ("selfbids/%s/%s/%s/%s/%s/p%s" % (c, tgt, ctx, where, decl, period),
                                   dict(tick=0.125, inits=[], framers=[x, y] if decl == "xy" else [y, x]), dict())


def fam_fiats(maxlen=3):
    """controller x issues a sequence of fiats (one per tick, enter context) on slave s; s's first frame guarded by e0."""
    ctxs = ("enter", "exit", "recur")
    for guard in (1, 0):
        for n in range(1, maxlen + 1):
            for seq in itertools.product(CONTROLS, repeat=n):
                frames = []
                for i, kind in enumerate(seq):
                    nm = "x%d" % i
                    items = recs(nm, ctxs) + [("fiat", "enter", kind, "s")]
                    if i + 1 < len(seq):
                        items.append(("go", "next", []))
                    frames.append(dict(name=nm, items=items))
                s = dict(name="s", schedule="slave", frames=[
                    dict(name="s0", items=[("let", [E0])] + recs("s0", ("benter",) + ctxs) + [("go", "next", [("recurred", ">=", 1, False)])]),
                    dict(name="s1", items=recs("s1", ctxs))])
                yield ("fiats/g%d/%s" % (guard, "-".join(seq)),
                       dict(tick=0.125, inits=[("env.e0", guard), ("env.e1", 0)],
                            framers=[dict(name="x", schedule="active", frames=frames), s]), dict())
                if n <= 2:
                    # the guard sits on the frame UNDER the slave's first frame: every start / ready attempt must check the
                    # whole first outline, so the fiat reports (and reaches) the same state as with the guard on top
                    su = dict(name="s", schedule="slave", frames=[
                        dict(name="s0", items=recs("s0", ("benter",) + ctxs) + [("go", "s1", [("recurred", ">=", 1, False)])]),
                        dict(name="s0u", over="s0", items=[("let", [E0])] + recs("s0u", ("benter",) + ctxs)),
                        dict(name="s1", items=recs("s1", ctxs))])
                    yield ("fiats/guard-under-first/g%d/%s" % (guard, "-".join(seq)),
                           dict(tick=0.125, inits=[("env.e0", guard), ("env.e1", 0)],
                                framers=[dict(name="x", schedule="active", frames=frames), su]), dict())
                if guard == 1 and n <= 2:
                    # a slave declared `in front` / `in back` (legal, no effect: slaves are never scheduled), alone and with a
                    # controller that also bids `start all` / `stop all`: only fiats may change the slave's state
                    for order in ("front", "back"):
                        for allbid in (None, "start", "stop"):
                            s2 = dict(s, order=order)
                            fr2 = [dict(f, items=list(f["items"])) for f in frames]
                            if allbid:
                                fr2[-1]["items"].append(("bid", "recur", allbid, ["all"], None))
                            yield ("fiats/slave-in-%s/all-%s/%s" % (order, allbid, "-".join(seq)),
                                   dict(tick=0.125, inits=[("env.e0", guard), ("env.e1", 0)],
                                        framers=[dict(name="x", schedule="active", frames=fr2), s2]), dict())


# ------------------------------------------------------------------------------- C20 markers

X_ALPHABET = [None, {"x": 1}, {"x": 2}]


def fam_markers():
    """frames A <-> B (and C) whose transitions are guarded by `x is updated|changed [in frame [F]] [by mk]`."""
    ctxs = ("enter", "exit")
    for kind in ("updated", "changed"):
        clauses = [(None, None), ("me", None), ("A", None), (None, "mk"), ("me", "mk"), ("B", "mk")]
        for (inA, byA) in clauses:
            for (inB, byB) in clauses:
                nA = (kind, "x", inA, byA, False)
                nB = (kind, "x", inB, byB, False)
                frames = [dict(name="A", items=recs("A", ctxs) + [("go", "B", [nA])]),
                          dict(name="B", items=recs("B", ctxs) + [("go", "A", [nB])])]
                yield ("markers/%s/A%s-%s/B%s-%s" % (kind, inA, byA, inB, byB),
                       dict(tick=0.125, inits=[("x", 0)], framers=[dict(name="m", schedule="active", frames=frames)]), dict())
        # two transitions in one frame sharing a mark, plus a framer write to x on entry (same tick as the entry reset)
        for (inA, byA) in clauses:
            nA = (kind, "x", inA, byA, False)
            frames = [dict(name="A", items=recs("A", ctxs) + [("go", "B", [nA, ("cmp", "x", "==", 1, None, False)]), ("go", "C", [nA])]),
                      dict(name="B", items=recs("B", ctxs) + [("put", "enter", 2, "x"), ("go", "A", [(kind, "x", "me", None, False)])]),
                      dict(name="C", items=recs("C", ctxs) + [("go", "A", [(kind, "x", None, byA, False)])])]
            yield ("markers/%s/two/A%s-%s" % (kind, inA, byA),
                   dict(tick=0.125, inits=[("x", 0)], framers=[dict(name="m", schedule="active", frames=frames)]), dict())
        # negated
        frames = [dict(name="A", items=recs("A", ctxs) + [("go", "B", [(kind, "x", "me", None, True)])]),
                  dict(name="B", items=recs("B", ctxs) + [("go", "A", [(kind, "x", None, None, False)])])]
        yield ("markers/%s/negated" % kind,
               dict(tick=0.125, inits=[("x", 0)], framers=[dict(name="m", schedule="active", frames=frames)]), dict())


    # BOTH kinds on the same share, same mark key, same `in frame`: each kind needs its own entry marker in that frame
    for (k1, k2) in (("updated", "changed"), ("changed", "updated")):
        for inA in ("me", "A"):
            for by in (None, "mk"):
                n1 = (k1, "x", inA, by, False)
                n2 = (k2, "x", inA, by, False)
                for shape in ("same-frame", "two-frames"):
                    if shape == "same-frame":
                        frames = [dict(name="A", items=recs("A", ctxs) + [("go", "B", [n1, E0]), ("go", "C", [n2])]),
                                  dict(name="B", items=recs("B", ctxs) + [("go", "A", [E0])]),
                                  dict(name="C", items=recs("C", ctxs) + [("go", "A", [E0])])]
                    else:
                        if inA == "me":
                            continue
                        frames = [dict(name="A", items=recs("A", ctxs) + [("go", "B", [n1])]),
                                  dict(name="B", items=recs("B", ctxs) + [("go", "A", [E0])]),
                                  dict(name="C", items=recs("C", ctxs) + [("go", "A", [n2])])]
                        frames[1]["items"].append(("go", "C", [("cmp", "x", "==", 2, None, False)]))
                    yield ("markers/both/%s-%s/%s/%s-%s" % (k1, k2, shape, inA, by),
                           dict(tick=0.125, inits=[("x", 0), ("env.e0", 0)], framers=[dict(name="m", schedule="active", frames=frames)]), dict(xe=True))


    # one transition guarded by marker needs on TWO different shares (same kind, same mark key): taking it must reset
    # BOTH marks
    for kind in ("updated", "changed"):
        for inA in (None, "me"):
            for by in (None, "mk"):
                nx = (kind, "x", inA, by, False)
                ny = (kind, "y", inA, by, False)
                frames = [dict(name="A", items=recs("A", ctxs) + [("go", "B", [nx, ny])]),
                          dict(name="B", items=recs("B", ctxs) + [("go", "A", [(kind, "y", None, by, False)]), ("go", "A", [E0])])]
                yield ("markers/two-shares/%s/%s-%s" % (kind, inA, by),
                       dict(tick=0.125, inits=[("x", 0), ("y", 0), ("env.e0", 0)], framers=[dict(name="m", schedule="active", frames=frames)]),
                       dict(xy=True))


def fam_markers_exit_writes():
    """top > (a | b): `go b if x is updated|changed` in a, and an exit action of a / re-exit action of top / enter
    action of b that WRITES x during that very transition.  The transit actions (the mark refresh) run first, so the
    write made by the exit / re-exit / enter action comes after the refresh: the next evaluation of the same mark
    (back in a) sees it (changed) - the framer keeps alternating; a refresh taken after the exits would swallow it."""
    ctxs = ("enter", "exit", "rexit", "renter")
    for kind in ("changed", "updated"):
        for where in ("exit-a", "rexit-top", "enter-b", "exit-a+rexit-top"):
            for (inA, by) in ((None, None), ("me", None), (None, "mk"), ("top", None)):
                top = recs("top", ctxs) + ([("put", "rexit", 6, "x")] if "rexit-top" in where else [])
                a = recs("a", ctxs) + ([("put", "exit", 5, "x")] if "exit-a" in where else []) + \
                    [("go", "b", [(kind, "x", inA, by, False)])]
                b = recs("b", ctxs) + ([("put", "enter", 7, "x")] if "enter-b" in where else []) + [("go", "a", [])]
                frames = [dict(name="top", items=top), dict(name="a", over="top", items=a), dict(name="b", over="top", items=b)]
                yield ("markers-exitwrite/%s/%s/A%s-%s" % (kind, where, inA, by),
                       dict(tick=0.125, inits=[("x", 0)], framers=[dict(name="m", schedule="active", first="a", frames=frames)]),
                       dict(alphabet=X_ALPHABET, watch=("x",)))


# ------------------------------------------------------------------------------- C12 clones

def moot_counter(name="mo", inner=None, ninner=1):
    """moot framer using framer-, frame-, main-relative data and optionally an inner insular clone."""
    ctxs = ("enter", "exit", "recur")
    a_items = recs("a", ctxs) + [("put", "enter", 0, "cnt of framer"), ("put", "enter", 5, "lim of frame"),
                                 ("put", "enter", 0, "ticks of framer"),
                                 ("inc", "recur", "cnt of framer", 1),
                                 ("go", "next", [("recurred", ">=", 2, False), ("cmp", "go of framer main", "==", 1, None, False)])]
    if inner:
        for _ in range(ninner):      # adjacent insular clones of the same moot in one frame
            a_items.insert(len(recs("a", ctxs)), ("auxclone", inner, "mine"))
    b_items = recs("b", ctxs) + [("inc", "enter", "total of frame main", 1), ("done", "enter", None)]
    return dict(name=name, schedule="moot", frames=[dict(name="a", items=a_items), dict(name="b", items=b_items)])


def moot_leaf(name="le"):
    ctxs = ("enter", "exit", "recur")
    return dict(name=name, schedule="moot", frames=[
        dict(name="p", items=recs("p", ctxs) + [("put", "enter", 1, "seen of framer"), ("inc", "recur", "ticks of framer main", 1), ("repeat", 1)]),
        dict(name="q", items=recs("q", ctxs) + [("done", "enter", None)])])


def fam_clones():
    ctxs = ("enter", "exit", "recur")
    GO = ("cmp", "env.e0", "==", 1, None, False)
    # build-time clones: 1..3 clones of the same moot, named / insular, in one frame or spread over two frames, nested or not
    for nested in (False, True):
        moots = [moot_counter("mo", inner="le" if nested else None), moot_leaf("le")]
        for tags in (("c1",), ("mine",), ("c1", "c2"), ("c1", "mine"), ("mine", "mine"), ("c1", "c2", "mine")):
            for spread in (False, True):
                f0 = recs("f0", ctxs) + [("put", "enter", 0, "go of framer"), ("put", "enter", 0, "ticks of framer"),
                                          ("put", "enter", 0, "total of frame")]
                f1 = recs("f1", ctxs) + [("put", "enter", 0, "total of frame")]
                for i, t in enumerate(tags):
                    (f1 if (spread and i % 2) else f0).append(("auxclone", "mo", t))
                f0 += [("put", "recur", 1, "go of framer"), ("go", "f1", [E0]), ("go", "me", [E1])]
                f1 += [("go", "f0", [("auxdone", "all", None, False), E1])]
                prog = dict(tick=0.125, inits=list(ENV_INITS),
                            framers=[dict(name="m", schedule="active", frames=[dict(name="f0", items=f0), dict(name="f1", items=f1)])] + moots)
                yield ("clones/%s/%s/%s" % ("nested" if nested else "flat", "+".join(tags), "spread" if spread else "one"), prog, dict())
    # run-time clones: rear into frame f1 from f0, raze from f2
    moots = [moot_counter("mo"), moot_leaf("le")]
    for nrear in (1, 2, 3):
        for who in ("all", "first", "last"):
            for rear_ctx in ("enter", "recur"):
                f0 = recs("f0", ctxs) + [("put", "enter", 1, "go of framer"), ("put", "enter", 0, "ticks of framer")] + \
                     [("rear", rear_ctx, "mo" if i % 2 == 0 else "le", "f1") for i in range(nrear)] + [("go", "f1", [E0])]
                f1 = recs("f1", ctxs) + [("put", "enter", 0, "total of frame"), ("go", "f2", [E1])]
                f2 = recs("f2", ctxs) + [("raze", "enter", who, "f1"), ("go", "f0", [E0]), ("go", "f1", [E1])]
                prog = dict(tick=0.125, inits=list(ENV_INITS),
                            framers=[dict(name="m", schedule="active", frames=[dict(name="f0", items=f0), dict(name="f1", items=f1),
                                                                             dict(name="f2", items=f2)])] + moots)
                yield ("clones/rear%d/raze-%s/%s" % (nrear, who, rear_ctx), prog, dict())


def fam_clones_rear_nested():
    """a moot with 2 or 3 ADJACENT insular clones in one frame is reared at run time, razed (which must prune every
    nested clone and free its name), and reared again on the next lap."""
    ctxs = ("enter", "exit", "recur")
    for ninner in (2, 3):
        moots = [moot_counter("mo", inner="le", ninner=ninner), moot_leaf("le")]
        for who in ("all", "first", "last"):
            f0 = recs("f0", ctxs) + [("put", "enter", 1, "go of framer"), ("put", "enter", 0, "ticks of framer"),
                                      ("rear", "enter", "mo", "f1"), ("go", "f1", [E0])]
            f1 = recs("f1", ctxs) + [("put", "enter", 0, "total of frame"), ("go", "f2", [E1])]
            f2 = recs("f2", ctxs) + [("raze", "enter", who, "f1"), ("go", "f0", [E0]), ("go", "f1", [E1])]
            prog = dict(tick=0.125, inits=list(ENV_INITS),
                        framers=[dict(name="m", schedule="active", frames=[dict(name="f0", items=f0), dict(name="f1", items=f1),
                                                                         dict(name="f2", items=f2)])] + moots)
            yield ("clones/rear-nested%d/raze-%s" % (ninner, who), prog, dict())


# ------------------------------------------------------------------------------- restart (C06 / C03 / C07)

def fam_restart():
    """A framer with a nested outline is stopped (or aborts / completes as an auxiliary) and later activated
    again on the same frames; enter order must again be top-down and the final exits bottom-up."""
    ctxs = ("enter", "exit", "recur")
    def chain(prefix, depth):
        names = ["%s%d" % (prefix, i) for i in range(depth)]
        return [dict(name=nm, over=names[i - 1] if i else None, items=recs(nm, ctxs)) for i, nm in enumerate(names)]
    for depth in (2, 3):
        # (1) scheduled framer y stopped by x on e0 and started again on e1
        yframes = chain("y", depth)
        x = dict(name="x", schedule="active", frames=[
            dict(name="x0", items=recs("x0", ctxs) + [("go", "x1", [E0])]),
            dict(name="x1", items=recs("x1", ctxs) + [("bid", "enter", "stop", ["y"], None), ("go", "x2", [E1])]),
            dict(name="x2", items=recs("x2", ctxs) + [("bid", "enter", "start", ["y"], None), ("go", "x0", [E0])])])
        for decl in ("xy", "yx"):
            y = dict(name="y", schedule="active", frames=yframes)
            yield ("restart/bid/depth%d/%s" % (depth, decl),
                   dict(tick=0.125, inits=list(ENV_INITS), framers=[x, y] if decl == "xy" else [y, x]), dict())
        # (2) plain auxiliary with a nested outline, its main frame left on e0 and re-entered on e1
        aux = dict(name="a", schedule="aux", frames=chain("a", depth))
        m = dict(name="m", schedule="active", frames=[
            dict(name="f0", items=recs("f0", ctxs) + [("aux", "a"), ("go", "f1", [E0]), ("go", "me", [E1])]),
            dict(name="f1", items=recs("f1", ctxs) + [("go", "f0", [E1])])])
        yield ("restart/aux/depth%d" % depth, dict(tick=0.125, inits=list(ENV_INITS), framers=[m, aux]), dict())
        # (3) conditional auxiliary with a nested outline that completes and is started again
        caux = dict(name="a", schedule="aux", frames=chain("a", depth) + [dict(name="az", items=recs("az", ctxs) + [("done", "enter", None)])])
        caux["frames"][depth - 1]["items"] = caux["frames"][depth - 1]["items"] + [("go", "az", [E1])]
        m = dict(name="m", schedule="active", frames=[
            dict(name="f0", items=recs("f0", ctxs) + [("auxif", "a", [E0])]),
            dict(name="f1", over="f0", items=recs("f1", ctxs))])
        yield ("restart/condaux/depth%d" % depth, dict(tick=0.125, inits=list(ENV_INITS), framers=[m, caux]), dict())
        # (5) scheduled framer y stopped / aborted by x WHILE its conditional auxiliary (on y1, clock condition) is running and
        #     truncates the outline, then started again: the aux triggers again and must truncate again at y1
        if depth == 3:
            for how in ("stop", "abort"):
                for kind in ("never", "repeat2"):
                    yf = chain("y", depth)
                    yf[1]["items"] = yf[1]["items"] + [("auxif", "a", [("recurred", ">=", 1, False)])]
                    x5 = dict(name="x", schedule="active", frames=[
                        dict(name="x0", items=recs("x0", ctxs) + [("go", "x1", [E0])]),
                        dict(name="x1", items=recs("x1", ctxs) + [("bid", "enter", how, ["y"], None), ("go", "x2", [E1])]),
                        dict(name="x2", items=recs("x2", ctxs) + [("bid", "enter", "start", ["y"], None), ("go", "x0", [E0])])])
                    y = dict(name="y", schedule="active", frames=yf)
                    yield ("restart/condaux-running/%s/%s" % (how, kind),
                           dict(tick=0.125, inits=list(ENV_INITS), framers=[x5, y, aux_framer_ext("a", kind)]), dict())
            # (6) the same as a plain auxiliary of m whose main frame is left and re-entered
            for kind in ("never", "repeat2"):
                af = chain("y", depth)
                af[1]["items"] = af[1]["items"] + [("auxif", "a", [("recurred", ">=", 1, False)])]
                m6 = dict(name="m", schedule="active", frames=[
                    dict(name="f0", items=recs("f0", ctxs) + [("aux", "y"), ("go", "f1", [E0]), ("go", "me", [E1])]),
                    dict(name="f1", items=recs("f1", ctxs) + [("go", "f0", [E1])])])
                yield ("restart/aux-condaux-running/%s" % kind,
                       dict(tick=0.125, inits=list(ENV_INITS), framers=[m6, dict(name="y", schedule="aux", frames=af), aux_framer_ext("a", kind)]), dict())
        # (4) slave with a nested outline stopped and started by fiats
        sl = dict(name="s", schedule="slave", frames=chain("s", depth))
        m = dict(name="m", schedule="active", frames=[
            dict(name="f0", items=recs("f0", ctxs) + [("fiat", "enter", "start", "s"), ("fiat", "exit", "stop", "s"), ("go", "f1", [E0])]),
            dict(name="f1", items=recs("f1", ctxs) + [("go", "f0", [E1])])])
        yield ("restart/slave/depth%d" % depth, dict(tick=0.125, inits=list(ENV_INITS), framers=[m, sl]), dict())


# ------------------------------------------------------------------------------- clones x markers (C12)

def fam_clone_markers():
    """The same moot (waiting on `x is updated|changed`, an ABSOLUTE share) cloned under two different main framers
    with colliding tags (both `as mine` / both the same name), and twice under one framer: every clone must react to
    a write of x exactly as the original would alone."""
    ctxs = ("enter", "exit")
    for kind in ("updated", "changed"):
        for inframe in (None, "me"):
            mo = dict(name="mw", schedule="moot", frames=[
                dict(name="w0", items=recs("w0", ctxs) + [("go", "next", [(kind, "x", inframe, None, False)])]),
                dict(name="w1", items=recs("w1", ctxs) + [("put", "enter", 1, "hits of framer"), ("go", "w0", [(kind, "x", inframe, None, False)])])])
            for tags in (("mine", "mine"), ("c", "c")):
                m1 = dict(name="m1", schedule="active", frames=[dict(name="f0", items=recs("f0", ctxs) + [("auxclone", "mw", tags[0])])])
                m2 = dict(name="m2", schedule="active", frames=[dict(name="g0", items=recs("g0", ctxs) + [("auxclone", "mw", tags[1])])])
                yield ("clonemarkers/%s/%s/two-mains/%s" % (kind, inframe, "+".join(tags)),
                       dict(tick=0.125, inits=[("x", 0)], framers=[m1, m2, mo]), dict(kind="xwrites"))
            m1 = dict(name="m1", schedule="active", frames=[dict(name="f0", items=recs("f0", ctxs) + [("auxclone", "mw", "mine"), ("auxclone", "mw", "c")])])
            yield ("clonemarkers/%s/%s/one-main" % (kind, inframe),
                   dict(tick=0.125, inits=[("x", 0)], framers=[m1, mo]), dict(kind="xwrites"))


# ------------------------------------------------------------------------------- pairwise feature interaction (C07)

def pair_menu():
    """Item templates for the pairwise family: (name, [items])."""
    V1 = ("cmp", "v", "==", 1, None, False)
    return [
        ("go3-e0", [("go", "f3", [E0])]),
        ("go2-e0", [("go", "f2", [E0])]),
        ("gome-e1", [("go", "me", [E1])]),
        ("go0-e1", [("go", "f0", [E1])]),
        ("go1-e1", [("go", "f1", [E1])]),
        ("timeout", [("timeout", 0.25)]),
        ("repeat", [("repeat", 2)]),
        ("let-e1", [("let", [E1])]),
        ("aux-x", [("aux", "x")]),
        ("aux-y", [("aux", "y")]),
        ("auxif-x-e0", [("auxif", "x", [E0])]),
        ("auxif-y-e1", [("auxif", "y", [E1])]),
        ("bid-stop-me", [("bid", "recur", "stop", ["me"], None)]),
        ("bid-stop-z", [("bid", "enter", "stop", ["z"], None)]),
        ("bid-start-z", [("bid", "exit", "start", ["z"], None)]),
        ("bid-abort-z-e", [("bid", "enter", "abort", ["z"], None)]),
        ("fiat-start-s", [("fiat", "enter", "start", "s")]),
        ("fiat-run-s", [("fiat", "recur", "run", "s")]),
        ("fiat-stop-s", [("fiat", "exit", "stop", "s")]),
        ("put-v", [("put", "enter", 1, "v"), ("go", "f3", [V1, E1])]),
        ("put-v0-exit", [("put", "exit", 0, "v")]),
        ("inc-c", [("inc", "recur", "c", 1), ("go", "f3", [("cmp", "c", ">=", 3, None, False)])]),
        ("go-xdone", [("go", "f3", [("done", "x", False), E1])]),
        ("go-anydone", [("go", "f3", [("auxdone", "any", None, False)])]),
        ("go-upd", [("go", "f3", [("updated", "v", "me", None, False)])]),
        ("done-x", [("done", "recur", ["x"])]),
        # ordinary (non-interrupting) verbs placed in the precur context: they must not interrupt evaluation
        ("put-precur", [("put", "precur", 1, "v")]),
        ("inc-precur", [("inc", "precur", "c", 1)]),
        ("copy-precur", [("copy", "precur", "v", "w")]),
        ("bid-precur", [("bid", "precur", "stop", ["z"], None)]),
        ("done-precur", [("done", "precur", ["x"])]),
        ("put-renter", [("put", "renter", 2, "w")]),
        # multi-field and goal verbs
        ("putf", [("putf", "enter", [("a", 1), ("b", 2)], "s"), ("go", "f3", [("cmpf", "a", "s", "==", 1, None, False), E1])]),
        ("copyf", [("copyf", "recur", ["a", "b"], "s", ["d", "c"], "t"), ("go", "f3", [("cmpf", "c", "t", "==", 2, None, False), E1])]),
        ("incf", [("incf", "recur", "b", "s", 1), ("go", "f3", [("cmpf", "b", "s", ">=", 4, None, False)])]),
        ("set", [("set", "enter", "g.x", 3), ("go", "f3", [("cmpi", "v", "<", "g.x", None, False), E1])]),
        ("setfrom", [("setfrom", "exit", "g.y", "v")]),
        ("inc-rexit", [("inc", "rexit", "c", 1)]),
    ]


def fam_pairs(first_variants=(None, "f2")):
    """Every unordered pair of feature templates, each placed on every frame of the fork f0 > {f1, f2} (+ root f3
    that always returns to f0 on e1), started in the primary or the non-primary branch.  Auxiliaries x (done after one
    run) and y (never), slave s (two nested frames) and a second scheduled framer z are available to the templates."""
    ctxs = ("enter", "exit", "recur")
    names = ["f0", "f1", "f2", "f3"]
    parents = (None, 0, 0, None)
    menu = pair_menu()
    extra = [aux_framer("x", "repeat1"), aux_framer("y", "never"),
             dict(name="s", schedule="slave", frames=[dict(name="s0", items=recs("s0", ctxs)),
                                                      dict(name="s1", over="s0", items=recs("s1", ctxs))]),
             dict(name="z", schedule="active", frames=[dict(name="z0", items=recs("z0", ctxs)),
                                                       dict(name="z1", over="z0", items=recs("z1", ctxs))])]
    for i, (na, ia) in enumerate(menu):
        for j, (nb, ib) in enumerate(menu):
            if j < i:
                continue
            for pa in range(3):
                for pb in range(3):
                    if i == j and pb < pa:
                        continue
                    if i == j and pa == pb:
                        continue
                    for first in first_variants:
                        frames = []
                        for k, nm in enumerate(names):
                            items = recs(nm, ctxs)
                            if k == pa:
                                items = items + list(ia)
                            if k == pb:
                                items = items + list(ib)
                            if k == 3:
                                items = items + [("go", "f0", [E1])]
                            frames.append(dict(name=nm, over=names[parents[k]] if parents[k] is not None else None, items=items))
                        fm = dict(name="m", schedule="active", frames=frames)
                        if first:
                            fm["first"] = first
                        yield ("pairs/%s@%d+%s@%d/first-%s" % (na, pa, nb, pb, first),
                               dict(tick=0.125, inits=list(ENV_INITS) + [("v", 0), ("c", 0), ("w", 0), ("s", {"a": 0, "b": 0}), ("t", {"c": 0, "d": 0}),
                                                                ("g.x", 0), ("g.y", 0)], framers=[fm] + extra),
                               dict(kind="pairs"))


# ------------------------------------------------------------------------------- thorough-tier extensions

def fam_cond_aux_two():
    """Two conditional auxiliaries on one chain f0 > f1 > f2 (+ f3): x on frame dx (condition e0), y on frame dy
    (condition e1), all kind pairs, every dx <= dy; a transition on e0 and e1 together from f2 / f0 to f3."""
    names = ["f0", "f1", "f2", "f3"]
    parents = (None, 0, 1, None)
    ctxs = ("enter", "exit", "recur", "precur")
    both = [E0, E1]
    for kx in ("now", "repeat1", "repeat2", "never"):
        for ky in ("now", "repeat1", "never"):
            for dx in (0, 1, 2):
                for dy in (0, 1, 2):
                    for order in ("xy", "yx") if dx == dy else ("xy",):
                        for s in (0, 2):
                            frames = []
                            for i, nm in enumerate(names):
                                items = recs(nm, ctxs)
                                pre = []
                                ax = ("auxif", "x", [E0])
                                ay = ("auxif", "y", [E1])
                                here = []
                                if i == dx:
                                    here.append(ax)
                                if i == dy:
                                    here.append(ay)
                                if order == "yx":
                                    here.reverse()
                                pre += here
                                if s == i:
                                    pre.append(("go", "f3", both))
                                items = items + pre + [("rec", "precur", nm + ".pz")]
                                if i == 3:
                                    items.append(("go", "f0", [E1]))
                                frames.append(dict(name=nm, over=names[parents[i]] if parents[i] is not None else None, items=items))
                            yfm = aux_framer_ext("y", ky)
                            yield ("condaux2/%s-%s/dx%d-dy%d-%s/go%d" % (kx, ky, dx, dy, order, s),
                                   dict(tick=0.125, inits=list(ENV_INITS),
                                        framers=[dict(name="m", schedule="active", frames=frames), aux_framer_ext("x", kx), yfm]),
                                   dict())


def fam_clocks_deep():
    """More ticks / thresholds, and clocks read in a parent frame while a child frame transitions (a transition
    inside the outline restarts the framer's clocks, so the parent's timeout is measured from the last change)."""
    ctxs = ("enter", "exit")
    for tick in (0.03125, 0.125, 0.5, 0.025, 0.1, 0.7):
        Ts = sorted(set([tick, 2 * tick, 2.5 * tick, 5 * tick, 0.7, 2.0]))
        for T in Ts:
            for N in (1, 2, 4, 8):
                frames = [dict(name="p", items=recs("p", ctxs) + [("timeout", T)], next="q"),
                          dict(name="a", over="p", items=recs("a", ctxs) + [("repeat", N)]),
                          dict(name="b", over="p", next="a", items=recs("b", ctxs) + [("repeat", N + 1)]),
                          dict(name="q", next="p", items=recs("q", ctxs) + [("go", "next", [("elapsed", ">=", T, False), ("recurred", ">=", N, False)])])]
                yield ("clocks-deep/%r/T%r/N%d" % (tick, T, N),
                       dict(tick=tick, inits=[], framers=[dict(name="m", schedule="active", frames=frames)]),
                       dict(tick=tick, T=T, N=N, clocked=()))


def fam_markers_deep():
    """marker conditions in other positions: as the condition of a conditional auxiliary, as a `let` entry guard,
    conjoined with a comparison, and on two shares at once."""
    ctxs = ("enter", "exit")
    for kind in ("updated", "changed"):
        for inframe in (None, "me", "B"):
            n = (kind, "x", inframe, None, False)
            # (a) conditional aux started by a marker condition
            frames = [dict(name="A", items=recs("A", ctxs) + [("auxif", "ax", [n]), ("go", "B", [E0])]),
                      dict(name="A1", over="A", items=recs("A1", ctxs)),
                      dict(name="B", items=recs("B", ctxs) + [("go", "A", [E0])])]
            if inframe != "B" or True:
                yield ("markers-deep/%s/auxif/%s" % (kind, inframe),
                       dict(tick=0.125, inits=[("x", 0), ("env.e0", 0)], framers=[dict(name="m", schedule="active", frames=frames), aux_framer("ax", "repeat1")]),
                       dict())
            # (b) `let` guard with a marker condition on the target frame
            frames = [dict(name="A", items=recs("A", ctxs) + [("go", "B", [E0])]),
                      dict(name="B", items=[("let", [(kind, "x", "A" if inframe == "B" else inframe, None, False)])] + recs("B", ("benter",) + ctxs) + [("go", "A", [E0])])]
            yield ("markers-deep/%s/let/%s" % (kind, inframe),
                   dict(tick=0.125, inits=[("x", 0), ("env.e0", 0)], framers=[dict(name="m", schedule="active", frames=frames)]), dict())
            # (c) conjunction marker + comparison, and two marks on two shares
            frames = [dict(name="A", items=recs("A", ctxs) + [("go", "B", [n, ("cmp", "x", "==", 2, None, False)]), ("go", "C", [(kind, "env.e0", None, None, False), n])]),
                      dict(name="B", items=recs("B", ctxs) + [("go", "A", [(kind, "x", None, "mk", False)])]),
                      dict(name="C", items=recs("C", ctxs) + [("go", "A", [(kind, "env.e0", "me", None, False)])])]
            yield ("markers-deep/%s/conj/%s" % (kind, inframe),
                   dict(tick=0.125, inits=[("x", 0), ("env.e0", 0)], framers=[dict(name="m", schedule="active", frames=frames)]), dict())


XE_ALPHABET = [None, {"x": 1}, {"x": 2}, {"env.e0": 1}, {"env.e0": 0}, {"x": 1, "env.e0": 1}]


def fam_markers_guarded():
    """a marker-guarded transition whose target frame has an entry guard: a REFUSED attempt must not reset the mark,
    so the pending update / change still fires the transition once the guard opens (no new write needed)."""
    ctxs = ("enter", "exit")
    for kind in ("updated", "changed"):
        for inframe in (None, "me"):
            for by in (None, "mk"):
                n = (kind, "x", inframe, by, False)
                frames = [dict(name="A", items=recs("A", ctxs) + [("go", "B", [n])]),
                          dict(name="B", items=[("let", [E0])] + recs("B", ("benter",) + ctxs) + [("go", "A", [(kind, "x", None, by, False)])])]
                yield ("markers-guarded/%s/%s/%s" % (kind, inframe, by),
                       dict(tick=0.125, inits=[("x", 0), ("env.e0", 0)], framers=[dict(name="m", schedule="active", frames=frames)]), dict())


def fam_markers_refused_aux():
    """a conditional auxiliary whose condition is a marker need and whose first frame is guarded (e1): a REFUSED start
    must not run the transit actions that reset the mark, so the pending update still starts the aux once e1 opens."""
    ctxs = ("enter", "exit")
    XE1 = [None, {"x": 1}, {"x": 2}, {"env.e1": 1}, {"env.e1": 0}, {"x": 1, "env.e1": 1}]
    for kind in ("updated", "changed"):
        for inframe in (None, "me"):
            for by in (None, "mk"):
                n = (kind, "x", inframe, by, False)
                frames = [dict(name="A", items=recs("A", ctxs) + [("auxif", "ax", [n]), ("go", "B", [E0])]),
                          dict(name="A1", over="A", items=recs("A1", ctxs + ("recur",))),
                          dict(name="B", items=recs("B", ctxs) + [("go", "A", [E0])])]
                yield ("markers-refused-aux/%s/%s/%s" % (kind, inframe, by),
                       dict(tick=0.125, inits=[("x", 0), ("env.e0", 0), ("env.e1", 0)],
                            framers=[dict(name="m", schedule="active", frames=frames), aux_framer("ax", "guard1")]), dict(alphabet=XE1))


def fam_clones_static_and_reared():
    """frame f1 holds a STATIC insular clone (`aux le as mine`, not razeable) next to run-time reared clones;
    raze first|last|all in frame f1 must only ever remove reared (razeable) clones."""
    ctxs = ("enter", "exit", "recur")
    moots = [moot_counter("mo"), moot_leaf("le")]
    for nrear in (0, 1, 2):
        for who in ("first", "last", "all"):
            for static in ("le", "mo"):
                f0 = recs("f0", ctxs) + [("put", "enter", 1, "go of framer"), ("put", "enter", 0, "ticks of framer")] + \
                     [("rear", "enter", "mo", "f1") for i in range(nrear)] + [("go", "f1", [E0])]
                f1 = recs("f1", ctxs) + [("put", "enter", 0, "total of frame"), ("auxclone", static, "mine"), ("go", "f2", [E1])]
                f2 = recs("f2", ctxs) + [("raze", "enter", who, "f1"), ("go", "f0", [E0]), ("go", "f1", [E1])]
                prog = dict(tick=0.125, inits=list(ENV_INITS),
                            framers=[dict(name="m", schedule="active", frames=[dict(name="f0", items=f0), dict(name="f1", items=f1),
                                                                             dict(name="f2", items=f2)])] + moots)
                yield ("clones/static-%s+rear%d/raze-%s" % (static, nrear, who), prog, dict())


def fam_clocks_condaux():
    """a conditional auxiliary that starts and completes while a timeout / repeat of its main frame (or of a frame
    above it) is still pending: truncating and restoring the active outline is not an outline change, so the
    framer's clocks must keep counting."""
    ctxs = ("enter", "exit")
    for tick in (0.125, 0.1):
        for k in (3, 5, 8):
            for kind in ("now", "repeat1", "repeat2"):
                for where in ("same", "above"):
                    T = k * tick
                    auxline = ("auxif", "x", [("recurred", ">=", 1, False), ("recurred", "<", 3, False)])
                    if where == "same":
                        frames = [dict(name="a", items=recs("a", ctxs) + [auxline, ("timeout", T)]),
                                  dict(name="a1", over="a", items=recs("a1", ctxs)),
                                  dict(name="b", next="a", items=recs("b", ctxs) + [("repeat", k)])]
                    else:
                        frames = [dict(name="a", next="b", items=recs("a", ctxs) + [("timeout", T)]),
                                  dict(name="a1", over="a", items=recs("a1", ctxs) + [auxline]),
                                  dict(name="a2", over="a1", items=recs("a2", ctxs)),
                                  dict(name="b", next="a", items=recs("b", ctxs) + [("repeat", k)])]
                    yield ("clocks-condaux/%r/k%d/%s/%s" % (tick, k, kind, where),
                           dict(tick=tick, inits=[], framers=[dict(name="m", schedule="active", frames=frames), aux_framer_ext("x", kind)]),
                           dict(tick=tick, T=T, N=k, clocked=()))


def fam_clone_guards():
    """moot framers whose frames carry `let` entry guards, plain and NEGATED, alone and in conjunctions, cloned as
    named / insular clones: every clone must be guarded exactly like its original declared as an ordinary auxiliary."""
    ctxs = ("benter", "enter", "exit", "recur")
    NE1 = ("cmp", "env.e1", "==", 1, None, True)         # not env.e1 == 1
    guardsets = {"not": [NE1], "plain": [E1], "and-not": [E0, NE1], "not-and": [NE1, E0],
                 "not-tol": [("cmp", "env.e1", "==", 1, 0.5, True)]}
    for gname, guards in guardsets.items():
        for first_guarded in (False, True):
            a_items = ([("let", list(guards))] if first_guarded else []) + recs("a", ctxs) + [("go", "next", [E0])]
            b_items = [("let", list(guards))] + recs("b", ctxs) + [("go", "a", [E0])]
            mo = dict(name="mg", schedule="moot", frames=[dict(name="a", items=a_items), dict(name="b", items=b_items)])
            for tags in (("c1",), ("mine",), ("c1", "mine")):
                f0 = recs("f0", ("enter", "exit", "recur")) + [("auxclone", "mg", t) for t in tags]
                prog = dict(tick=0.125, inits=list(ENV_INITS),
                            framers=[dict(name="m", schedule="active", frames=[dict(name="f0", items=f0)]), mo])
                yield ("cloneguards/%s/%s/%s" % (gname, "first" if first_guarded else "second", "+".join(tags)), prog, dict())


G_ALPHABET = [None, {"g.x": 1}, {"g.x": 2}, {"v": 1}, {"v": 2}]


def fam_indirect_goals():
    """comparison with the goal read from ANOTHER share (`v == g.x [+- tol]`, all six operators, plain and negated)
    while the environment rewrites the goal share before AND after the framer inside one tick (same store stamp)."""
    ctxs = ("enter", "exit")
    for op in ("==", "!=", "<", "<=", ">", ">="):
        for tol in (None, 0.25):
            if tol is not None and op not in ("==", "!="):
                continue
            for neg in (False, True):
                n = ("cmpi", "v", op, "g.x", tol, neg)
                frames = [dict(name="A", items=recs("A", ctxs) + [("go", "B", [n])]),
                          dict(name="B", items=recs("B", ctxs) + [("go", "A", [("cmpi", "v", op, "g.x", tol, not neg)])])]
                yield ("indirect/%s/tol%s/neg%d" % (op, tol, neg),
                       dict(tick=0.125, inits=[("v", 1), ("g.x", 2)], framers=[dict(name="m", schedule="active", frames=frames)]), dict())


def fam_guarded_start():
    """controller m readies / starts / runs a second framer w whose FIRST frame (or the frame under it) is guarded by
    e1, from frames entered on e0: the guard may flip between `ready` and `start`, so every start attempt must
    re-check it at the moment of the attempt; w is inactive or active, declared before or after m."""
    ctxs = ("benter", "enter", "exit", "recur")
    for first in ("ready", "start", "run"):
        for second in ("start", "run", "ready", "stop"):
            for wsched in ("inactive", "active"):
                for decl in ("mw", "wm"):
                    for gpos in ("first", "under"):
                        a = recs("A", ctxs[1:]) + [("bid", "enter", first, ["w"], None), ("go", "B", [E0])]
                        b = recs("B", ctxs[1:]) + [("bid", "enter", second, ["w"], None), ("go", "A", [E0])]
                        m = dict(name="m", schedule="active", frames=[dict(name="A", items=a), dict(name="B", items=b)])
                        w0 = ([("let", [E1])] if gpos == "first" else []) + recs("w0", ctxs)
                        w1 = ([("let", [E1])] if gpos == "under" else []) + recs("w1", ctxs)
                        w = dict(name="w", schedule=wsched, frames=[dict(name="w0", items=w0), dict(name="w1", over="w0", items=w1)])
                        yield ("guarded-start/%s-%s/%s/%s/%s" % (first, second, wsched, decl, gpos),
                               dict(tick=0.125, inits=list(ENV_INITS), framers=[m, w] if decl == "mw" else [w, m]), dict(parents=None))


def fam_cond_two_plain():
    """chain f0 > f1 > f2 (+ f3): two conditional auxiliaries x (e0) and y (e1) on the SAME frame d, in both clause
    orders, every kind pair; a PLAIN auxiliary z (never done, recorders on enter/exit/recur) on a frame below d: z must
    not run while either conditional auxiliary is still running, and must run once per tick otherwise."""
    names = ["f0", "f1", "f2", "f3"]
    parents = (None, 0, 1, None)
    ctxs = ("enter", "exit", "recur")
    for kx in ("now", "repeat1", "repeat2", "never"):
        for ky in ("repeat1", "repeat2", "never"):
            for d in (0, 1):
                for zat in range(d + 1, 3):
                    for order in ("xy", "yx", "xy-re", "yx-re"):
                        # -re: the top frame restarts its own outline (`go f0`, evaluated before the conditional clauses)
                        # while a conditional auxiliary runs: the forced re-entry exits it, so the frames below d are
                        # no longer suspended and z must run from the next tick on
                        frames = []
                        for i, nm in enumerate(names):
                            items = recs(nm, ctxs)
                            if i == 0 and order.endswith("-re"):
                                items.append(("go", "f0", [E0, E1]))
                            if i == d:
                                here = [("auxif", "x", [E0]), ("auxif", "y", [E1])]
                                if order.startswith("yx"):
                                    here.reverse()
                                items += here
                            if i == zat:
                                items.append(("aux", "z"))
                            if i == 0 and not order.endswith("-re"):
                                items.append(("go", "f3", [E0, E1]))
                            if i == 3:
                                items.append(("go", "f0", [E1]))
                            frames.append(dict(name=nm, over=names[parents[i]] if parents[i] is not None else None, items=items))
                        yield ("condaux2-plain/%s-%s/d%d-z%d-%s" % (kx, ky, d, zat, order),
                               dict(tick=0.125, inits=list(ENV_INITS),
                                    framers=[dict(name="m", schedule="active", frames=frames), aux_framer_ext("x", kx),
                                             aux_framer_ext("y", ky), aux_framer("z", "cycle")]), dict())


def fam_clone_shapes():
    """moot framers whose frame forest uses everything a clone must copy: an `under` override of the primary child, a
    non-default `first` frame, explicit `next` links and `go next`; cloned as named / insular / reared clones.  The
    clone must walk exactly the frames its original would as an ordinary auxiliary."""
    ctxs = ("enter", "exit", "recur")
    for under in (None, "c"):
        for first in (None, "d"):
            for nxt in (None, "a"):
                init = [("put", "enter", 0, "nb of framer"), ("put", "enter", 0, "nc of framer")]
                # every action context in the moot's frames: a clone must copy each act list into the same context
                a = dict(name="a", items=recs("a", ALLCTX) + init + [("put", "enter", 1, "seen of framer"), ("go", "next", [E0])])
                if under:
                    a["under"] = under
                b = dict(name="b", over="a", items=recs("b", ALLCTX) + [("inc", "recur", "nb of framer", 1)])
                c = dict(name="c", over="a", items=recs("c", ALLCTX) + [("inc", "recur", "nc of framer", 1)])
                d = dict(name="d", items=recs("d", ALLCTX) + init + [("go", "next", [E1])])
                if nxt:
                    d["next"] = nxt
                else:
                    d["items"][-1] = ("go", "a", [E1])
                mo = dict(name="ms", schedule="moot", frames=[a, b, c, d])
                if first:
                    mo["first"] = first
                for how in ("c1", "mine", "c1+mine", "rear"):
                    f0 = recs("f0", ctxs)
                    frames = [dict(name="f0", items=f0)]
                    if how == "rear":
                        f0 += [("rear", "enter", "ms", "f1"), ("go", "f1", [("cmp", "env.e0", "==", 0, None, False)])]
                        frames.append(dict(name="f1", items=recs("f1", ctxs)))
                    else:
                        f0 += [("auxclone", "ms", t) for t in how.split("+")]
                    prog = dict(tick=0.125, inits=list(ENV_INITS), framers=[dict(name="m", schedule="active", frames=frames), mo])
                    yield ("cloneshapes/under-%s/first-%s/next-%s/%s" % (under, first, nxt, how), prog, dict())


def fam_clocks_aux_interrupt():
    """a plain auxiliary that counts with `repeat N` / `timeout T` sits on a NON-top frame while a frame above it
    interrupts (a transition between siblings under the aux's frame, or a conditional auxiliary starting above): the
    auxiliary's frame survives the interrupt, so its recurred must still count every completed iteration."""
    ctxs = ("enter", "exit")
    for tick in (0.125, 0.1):
        for k in (2, 3, 5):
            for N in (1, 2, 3):
                for how in ("go-sibling", "go-same", "condaux-above"):
                    cnt = dict(name="cnt", schedule="aux", frames=[
                        dict(name="c0", items=recs("c0", ctxs) + [("repeat", N)]),
                        dict(name="c1", next="c0", items=recs("c1", ctxs) + [("timeout", N * tick)])])
                    top_items = recs("top", ctxs)
                    extra = []
                    if how == "go-sibling":
                        top_items.append(("go", "low2", [("elapsed", ">=", k * tick, False)]))
                    elif how == "go-same":
                        top_items.append(("go", "low", [("recurred", ">=", k, False)]))
                    else:
                        top_items.append(("auxif", "y", [("recurred", ">=", k, False), ("recurred", "<", k + 2, False)]))
                        extra = [aux_framer_ext("y", "repeat1")]
                    frames = [dict(name="top", items=top_items),
                              dict(name="mid", over="top", items=recs("mid", ctxs) + [("aux", "cnt")]),
                              dict(name="low", over="mid", items=recs("low", ctxs)),
                              dict(name="low2", over="mid", items=recs("low2", ctxs) + [("go", "low", [("recurred", ">=", k + 1, False)])])]
                    yield ("clocks-aux-interrupt/%r/k%d/N%d/%s" % (tick, k, N, how),
                           dict(tick=tick, inits=[], framers=[dict(name="m", schedule="active", frames=frames), cnt] + extra),
                           dict(tick=tick, T=N * tick, N=N, clocked=()))


XY_ALPHABET = [None, {"x": 1}, {"y": 1}, {"x": 1, "y": 1}, {"x": 2, "y": 2}, {"env.e0": 1}, {"env.e0": 0}]
XF_ALPHABET = [None, {"x": 1}, {"x": {"note": None}}, {"x": {"note": 1}}, {"x": {"value": None}}, {"env.e0": 1}, {"env.e0": 0}]


def fam_markers_fields():
    """`is changed` / `is updated` on a share that GAINS fields after the mark was taken (values None, 1) and whose
    existing field is set to None: a field added since the snapshot counts as a change whatever its value."""
    ctxs = ("enter", "exit")
    for kind in ("changed", "updated"):
        for inframe in (None, "me"):
            n = (kind, "x", inframe, None, False)
            frames = [dict(name="A", items=recs("A", ctxs) + [("go", "B", [n])]),
                      dict(name="B", items=recs("B", ctxs) + [("go", "A", [E0])])]
            yield ("markers-fields/%s/%s" % (kind, inframe),
                   dict(tick=0.125, inits=[("x", 0), ("env.e0", 0)], framers=[dict(name="m", schedule="active", frames=frames)]),
                   dict(alphabet=XF_ALPHABET))


def fam_clone_doer_state():
    """a moot whose frames `do acc` (a behaviour whose ioinit is the framer-relative share framer.me.acclog with a MUTABLE
    default value): the original, every named / insular / reared clone and a second build of the same program must each
    keep their own list."""
    ctxs = ("enter", "exit")
    mo = dict(name="ma", schedule="moot", frames=[
        dict(name="a", items=recs("a", ctxs) + [("acc", "recur"), ("go", "next", [E0])]),
        dict(name="b", next="a", items=recs("b", ctxs) + [("acc", "enter"), ("go", "next", [E0])])])
    for tags in (("c1",), ("c1", "c2"), ("mine", "mine"), ("c1", "mine"), ("c1", "c2", "mine")):
        f0 = recs("f0", ctxs) + [("acc", "recur")] + [("auxclone", "ma", t) for t in tags] + [("go", "f1", [E1])]
        f1 = recs("f1", ctxs) + [("go", "f0", [E1])]
        prog = dict(tick=0.125, inits=list(ENV_INITS),
                    framers=[dict(name="m", schedule="active", frames=[dict(name="f0", items=f0), dict(name="f1", items=f1)]), mo])
        yield ("clone-doer-state/%s" % "+".join(tags), prog, dict())
    f0 = recs("f0", ctxs) + [("rear", "enter", "ma", "f1"), ("rear", "enter", "ma", "f1"), ("go", "f1", [("cmp", "env.e0", "==", 0, None, False)])]
    prog = dict(tick=0.125, inits=list(ENV_INITS),
                framers=[dict(name="m", schedule="active", frames=[dict(name="f0", items=f0), dict(name="f1", items=recs("f1", ctxs))]), mo])
    yield ("clone-doer-state/rear2", prog, dict())


def fam_clocks_rebid():
    """worker sits in timeout / repeat frames while a boss framer bids it `run|start|ready ... at P` (a period change, or
    the same period restated): a bid is not an outline change, so the worker's elapsed / recurred keep counting."""
    ctxs = ("enter", "exit")
    tick = 0.125
    for j in (1, 2, 3):
        for P in (0.0, 0.125, 0.25):
            for kind in ("run", "ready", "start"):
                for T in (0.5, 0.75):
                    w = dict(name="w", schedule="active", period=0.0, frames=[
                        dict(name="a", items=recs("a", ctxs) + [("timeout", T)]),
                        dict(name="b", next="a", items=recs("b", ctxs) + [("repeat", 3)])])
                    boss = dict(name="boss", schedule="active", frames=[
                        dict(name="x0", items=recs("x0", ctxs) + [("go", "next", [("recurred", ">=", j, False)])]),
                        dict(name="x1", items=recs("x1", ctxs) + [("bid", "enter", kind, ["w"], P), ("go", "next", [("recurred", ">=", 2, False)])]),
                        dict(name="x2", items=recs("x2", ctxs) + [("bid", "enter", "run", ["w"], 0.0)])])
                    for decl in ("bw", "wb"):
                        yield ("clocks-rebid/j%d/P%r/%s/T%r/%s" % (j, P, kind, T, decl),
                               dict(tick=tick, inits=[], framers=[boss, w] if decl == "bw" else [w, boss]),
                               dict(tick=tick, T=T, N=3, clocked=()))


def fam_clocks_siblings():
    """two (or three) plain auxiliaries on ONE frame: a pacer cycling on `repeat K` (a transition every K ticks) listed
    before / after / around a counting auxiliary sitting in timeout T / repeat N frames: a sibling's transition is not
    an outline change of the counting auxiliary, whose elapsed / recurred must be current at every evaluation."""
    ctxs = ("enter", "exit")
    for tick in (0.125, 0.1):
        for K in (1, 2, 3):
            for T in (tick, 3 * tick, 0.5):
                for N in (1, 2, 5):
                    def pacer(nm):
                        return dict(name=nm, schedule="aux", frames=[
                            dict(name=nm + "1", items=recs(nm + "1", ctxs) + [("repeat", K)]),
                            dict(name=nm + "2", next=nm + "1", items=recs(nm + "2", ctxs) + [("repeat", K)])])
                    x = dict(name="x", schedule="aux", frames=[
                        dict(name="a", items=recs("a", ctxs) + [("repeat", N)]),
                        dict(name="b", items=recs("b", ctxs) + [("timeout", T)]),
                        dict(name="c", next="a", items=recs("c", ctxs) + [("repeat", N + 1), ("timeout", 2 * T)])])
                    for order in ("px", "xp", "pxq"):
                        auxes = {"px": ["p", "x"], "xp": ["x", "p"], "pxq": ["p", "x", "q"]}[order]
                        main = [dict(name="f0", items=recs("f0", ctxs) + [("aux", a) for a in auxes])]
                        yield ("clocks-siblings/%r/K%d/T%r/N%d/%s" % (tick, K, T, N, order),
                               dict(tick=tick, inits=[], framers=[dict(name="m", schedule="active", frames=main)] +
                                    [x if a == "x" else pacer(a) for a in auxes]),
                               dict(tick=tick, T=T, N=N, clocked=("x",)))


def fam_cond_aux_three():
    """chain f0 > f1 > f2 > f3: conditional auxes z on f2 (e0), y on f1 (e1) and x on f0 (e0 and e1): z starts first, then
    y above it, then x above both; when x completes the outline must be cut again at the HIGHEST frame that still has a
    running conditional aux (f1), not at a lower one."""
    names = ["f0", "f1", "f2", "f3"]
    ctxs = ("enter", "exit", "recur", "precur")
    for kx in ("repeat1", "now", "repeat2"):
        for ky in ("never", "repeat2"):
            for kz in ("never", "repeat2"):
                frames = []
                for i, nm in enumerate(names):
                    items = recs(nm, ctxs)
                    if i == 0:
                        items.append(("auxif", "x", [E0, E1]))
                    if i == 1:
                        items.append(("auxif", "y", [E1]))
                    if i == 2:
                        items.append(("auxif", "z", [E0]))
                    frames.append(dict(name=nm, over=names[i - 1] if i else None, items=items))
                yield ("condaux3/%s-%s-%s" % (kx, ky, kz),
                       dict(tick=0.125, inits=list(ENV_INITS),
                            framers=[dict(name="m", schedule="active", frames=frames), aux_framer_ext("x", kx),
                                     aux_framer_ext("y", ky), aux_framer_ext("z", kz)]), dict())
