"""Run one AST program through real ioflo and through the reference; compare tick by tick."""
from mc.flo import lang, real, ref


def env_fn_real(env):
    """env: dict k -> {path: value}  ->  callback for real.run"""
    if not env:
        return None

    def fn(house, k):
        for path, v in (env.get(k) or {}).items():
            sh = house.store.fetchShare(path)
            if sh is None:
                sh = house.store.create(path)
            if isinstance(v, dict):          # multi-field write: may ADD fields the share did not have
                sh.update(**v)
            else:
                sh.update(value=v)
    return fn


def env_fn_ref(env):
    if not env:
        return None
    return lambda k: env.get(k) or {}


def run_real(prog, horizon, envf=None, envb=None, watch=(), limit=20.0):
    text = lang.emit(prog)
    br = real.build_text(text)
    if not br.ok:
        return text, br, None
    rr = real.run(br.houses, tick=prog.get("tick", 0.125), horizon=horizon,
                  env_front=env_fn_real(envf), env_back=env_fn_real(envb), watch=watch, limit=limit)
    if rr.outcome == "watchdog":         # machine stall or genuine hang? rebuild and retry once with a 12x limit
        br = real.build_text(text)
        if br.ok:
            rr = real.run(br.houses, tick=prog.get("tick", 0.125), horizon=horizon,
                          env_front=env_fn_real(envf), env_back=env_fn_real(envb), watch=watch, limit=limit * 12)
    return text, br, rr


def run_ref(prog, horizon, envf=None, envb=None, watch=()):
    r = ref.Ref(prog)
    return r.run(horizon, env_front=env_fn_ref(envf), env_back=env_fn_ref(envb), watch=watch)


def compare(rr, ro, fields=9):
    """Return None if equal, else (tick, what, real, ref)."""
    if rr.outcome != "returned":
        return (-1, "outcome", rr.outcome + " " + repr(rr.exc), "returned")
    n = min(len(rr.ticks), len(ro.ticks))
    for k in range(n):
        a, b = rr.events[k], ro.events[k]
        if list(a) != list(b):
            return (k, "events", a, b)
        fa = [tuple(s[:fields]) for s in rr.ticks[k]["framers"]]
        fb = [tuple(s[:fields]) for s in ro.ticks[k]["framers"]]
        if fa != fb:
            for x, y in zip(fa, fb):
                if x != y:
                    return (k, "snapshot", x, y)
            return (k, "snapshot-len", fa, fb)
        if rr.ticks[k]["shares"] != ro.ticks[k]["shares"]:
            return (k, "shares", rr.ticks[k]["shares"], ro.ticks[k]["shares"])
    if len(rr.ticks) != len(ro.ticks):
        return (n, "run-length", len(rr.ticks), len(ro.ticks))
    if list(rr.events[-1]) != list(ro.events[-1]):
        return (n, "final-events", rr.events[-1], ro.events[-1])
    fa = [tuple(s[:fields]) for s in rr.final["framers"]]
    fb = [tuple(s[:fields]) for s in ro.final["framers"]]
    if fa != fb:
        return (n, "final-snapshot", fa, fb)
    return None
