"""
Engine A, reference side: an independent interpreter of the documented FloScript
semantics (DESIGN.md Appendix A) working on the AST of mc/flo/lang.py only.
It shares no code with ioflo and never looks at FloScript text or ioflo objects.

    r = Ref(prog)
    out = r.run(horizon, env_front=lambda k: {path: value}, env_back=..., watch=[paths])
    out.events   per tick list of (framer, frame, ctx, tag); last entry = abort sweep
    out.ticks    per tick dict(k, stamp, framers=[snapshot tuples], shares={path: (fields, stamp)})
"""
from mc.flo import lang

STOPPED, READIED, STARTED, RUNNING, ABORTED = "stopped", "readied", "started", "running", "aborted"
START, RUN, STOP, ABORT, READY = "start", "run", "stop", "abort", "ready"


class RefError(Exception):
    """The program uses something the reference does not model (harness error)."""


class Mark:
    __slots__ = ("stamp", "data", "used")

    def __init__(self):
        self.stamp = None
        self.data = None
        self.used = None


class RShare:
    __slots__ = ("fields", "stamp", "marks")

    def __init__(self):
        self.fields = {}     # insertion ordered
        self.stamp = None
        self.marks = {}


class RFrame:
    def __init__(self, name, framer):
        self.name = name
        self.framer = framer
        self.over = None
        self.unders = []
        self.next = None
        self.outline = []
        self.head = []
        self.beacts, self.enacts, self.renacts, self.preacts = [], [], [], []
        self.reacts, self.exacts, self.rexacts = [], [], []
        self.auxes = []

    def __repr__(self):
        return "<F %s>" % self.name


class RFramer:
    def __init__(self, name):
        self.name = name
        self.schedule = "active"
        self.order = "mid"
        self.period = 0.0
        self.frames = {}
        self.first = None
        self.status = STOPPED
        self.desire = STOP
        self.done = True
        self.active = None
        self.actives = []
        self.stamp = 0.0
        self.elapsed = 0.0
        self.recurred = 0
        self.main = None
        self.original = True
        self.alive = True      # generator not ended
        self.insular = False
        self.razeable = False
        self.aux_tags = {}     # tags of clones owned by this framer
        self.active_name = ""  # value of the .state.active share
        self.human = ""

    def __repr__(self):
        return "<Fm %s>" % self.name


class RunOut:
    def __init__(self):
        self.events = []
        self.ticks = []
        self.controls = []
        self.final = None


def check(state, op, goal, tol):
    """Statement of C21 / Appendix A.5."""
    tol = 0 if tol is None else tol
    if op == "==":
        try:
            return (goal - abs(tol)) <= state <= (goal + abs(tol))
        except TypeError:
            return goal == state
    if op == "!=":
        try:
            return not ((goal - abs(tol)) <= state <= (goal + abs(tol)))
        except TypeError:
            return goal != state
    if op == "<":
        return state < goal
    if op == "<=":
        return state <= goal
    if op == ">=":
        return state >= goal
    if op == ">":
        return state > goal
    return False


class Ref:
    def __init__(self, prog):
        prog = lang.desugar(prog)
        self.prog = prog
        self.moots = prog.get("moots", {})
        self.tick = float(abs(prog.get("tick", 0.125)))
        self.now = 0.0
        self.store = {}
        self.framers = {}
        self.order = []          # scheduled framers in fronts+mids+backs order
        self.log = []            # current tick events
        self.acc_counts = {}     # framer name -> number of `acc` calls (the per-framer list's length)
        self.razed = []
        self._build()

    # ------------------------------------------------------------------ build
    def share(self, path, create=False):
        path = path.strip(".")
        sh = self.store.get(path)
        if sh is None:
            if not create:
                raise RefError("share %r not initialised by the program" % path)
            sh = self.store[path] = RShare()
        return sh

    def _build(self):
        for path, value in self.prog.get("inits", []):
            if isinstance(value, dict):
                self.share(path, True).fields.update(value)
            else:
                self.share(path, True).fields["value"] = value
        fronts, mids, backs = [], [], []
        for fm in self.prog["framers"]:
            R = RFramer(fm["name"])
            R.schedule = fm.get("schedule", "active")
            R.order = fm.get("order", "mid")
            R.period = max(0.0, float(fm.get("period") or 0.0))
            R.original = fm.get("original", True)
            R.insular = bool(fm.get("insular"))
            R.aux_tags = {t: True for t in fm.get("clone_tags", [])}
            self.framers[R.name] = R
            for p in ("elapsed", "recurred", "active", "human"):
                sh = self.share("framer.%s.state.%s" % (R.name, p), True)
                sh.fields["value"] = {"elapsed": 0.0, "recurred": 0, "active": "", "human": ""}[p]
                sh.stamp = None   # stamped by update with store.stamp None at build
            if R.schedule in ("active", "inactive"):
                {"front": fronts, "mid": mids, "back": backs}[R.order].append(R)
            for fr in fm["frames"]:
                R.frames[fr["name"]] = RFrame(fr["name"], R)
        self.order = fronts + mids + backs
        # links
        for fm in self.prog["framers"]:
            R = self.framers[fm["name"]]
            und = lang.unders_of(fm)
            ov = lang.over_of(fm)
            nx = lang.next_of(fm)
            for fr in fm["frames"]:
                F = R.frames[fr["name"]]
                F.over = R.frames[ov[fr["name"]]] if ov.get(fr["name"]) else None
                F.unders = [R.frames[u] for u in und[fr["name"]]]
                F.next = R.frames[nx[fr["name"]]] if nx.get(fr["name"]) else None
                F.outline = [R.frames[n] for n in lang.outline(fm, fr["name"])]
                F.head = [R.frames[n] for n in lang.head(fm, fr["name"])]
            R.first = R.frames[lang.first_of(fm)]
        for fm in self.prog["framers"]:
            if fm.get("fixed_main"):
                mf, mfr = fm["fixed_main"]
                self.framers[fm["name"]].main = self.framers[mf].frames[mfr]
        # acts; resolution order per frame mirrors Frame.resolve: beacts, enacts, reacts, preacts, exacts...
        deferred_markers = []
        for fm in self.prog["framers"]:
            R = self.framers[fm["name"]]
            for fr in fm["frames"]:
                F = R.frames[fr["name"]]
                for it in fr["items"]:
                    k = it[0]
                    if k in ("rec", "acc"):
                        self._ctxlist(F, it[1]).append(it)
                    elif k == "go":
                        F.preacts.append(("go", it[1], list(it[2])))
                    elif k == "timeout":
                        F.preacts.append(("go", "next", [("elapsed", ">=", float(abs(it[1])), False)]))
                    elif k == "repeat":
                        F.preacts.append(("go", "next", [("recurred", ">=", int(abs(it[1])), False)]))
                    elif k == "let":
                        for n in it[1]:
                            F.beacts.append(("need", n))
                    elif k == "aux":
                        F.auxes.append(self.framers[it[1]])
                    elif k == "auxif":
                        F.preacts.append(("auxif", it[1], list(it[2])))
                    elif k in ("done", "bid", "fiat", "put", "inc", "copy", "rear", "raze", "putf", "copyf", "incf", "set", "setfrom"):
                        self._ctxlist(F, it[1]).append(it)
                    else:
                        raise RefError("unknown item %r" % (it,))
        # resolve-time side effects, in ioflo's order: framers in house order, frames in order,
        # per frame: beacts, enacts, reacts, preacts, exacts, rexacts, renacts
        for fm in self.prog["framers"]:
            R = self.framers[fm["name"]]
            for fr in fm["frames"]:
                F = R.frames[fr["name"]]
                for lst in (F.beacts, F.enacts, F.reacts, F.preacts, F.exacts, F.rexacts, F.renacts):
                    for act in list(lst):
                        self._resolve_act(F, act)

    def _ctxlist(self, F, ctx):
        return {"benter": F.beacts, "enter": F.enacts, "renter": F.renacts, "precur": F.preacts,
                "recur": F.reacts, "exit": F.exacts, "rexit": F.rexacts}[ctx]

    def _resolve_act(self, F, act):
        k = act[0]
        if k == "auxif":
            F.exacts.append(("deactivize", act[1]))
            for n in act[2]:
                self._resolve_need(F, n)
        elif k == "go":
            for n in act[2]:
                self._resolve_need(F, n)
        elif k == "need":
            self._resolve_need(F, act[1])

    def _resolve_need(self, F, n):
        if n[0] in ("updated", "changed"):
            _, path, inframe, by, _neg = n
            R = F.framer
            frame = F if (inframe is None or inframe == "me") else R.frames[inframe]
            key = R.name + "<" + (by if by else frame.name)
            sh = self.share(path)
            if key not in sh.marks:
                sh.marks[key] = Mark()
            if inframe is not None:
                m = ("marker", n[0], path, key)
                if m not in frame.enacts:
                    frame.enacts.insert(0, m)

    # ------------------------------------------------------------------ store verbs
    def update(self, path, **fields):
        sh = self.share(path)
        for f, v in fields.items():
            sh.fields[f] = v
        sh.stamp = self.now

    # ------------------------------------------------------------------ needs
    def need(self, F, n):
        k = n[0]
        neg = n[-1]
        R = F.framer
        if k == "cmp":
            r = check(self.share(n[1]).fields["value"], n[2], n[3], n[4])
        elif k == "cmpf":
            r = check(self.share(n[2]).fields[n[1]], n[3], n[4], n[5])
        elif k == "cmpi":
            r = check(self.share(n[1]).fields["value"], n[2], self.share(n[3]).fields["value"], n[4])
        elif k == "bool":
            r = bool(self.share(n[1]).fields["value"])
        elif k == "elapsed":
            r = check(self.share("framer.%s.state.elapsed" % R.name).fields["value"], n[1], n[2], 0)
        elif k == "recurred":
            r = check(self.share("framer.%s.state.recurred" % R.name).fields["value"], n[1], n[2], 0)
        elif k == "done":
            r = self.framers[n[1]].done
        elif k == "auxdone":
            which, frame = n[1], n[2]
            if which in ("any", "all"):
                fr = F if frame in (None, "me") else R.frames[frame]
                ds = [a.done for a in fr.auxes]
                r = any(ds) if which == "any" else (bool(ds) and all(ds))
            else:
                aux = self.framers[which]
                if frame is None:
                    r = aux.done
                else:
                    fr = F if frame == "me" else R.frames[frame]
                    r = aux.done if aux in fr.auxes else False
        elif k == "auxdonex":
            which, frame, framer = n[1], n[2], n[3]
            fr = self.framers[framer].frames[frame]
            if which in ("any", "all"):
                ds = [a.done for a in fr.auxes]
                r = any(ds) if which == "any" else (bool(ds) and all(ds))
            else:
                aux = self.framers[which]
                r = aux.done if aux in fr.auxes else False
        elif k == "status":
            r = self.framers[n[1]].status == n[2]
        elif k == "updated":
            _, path, inframe, by, _neg = n
            frame = F if (inframe is None or inframe == "me") else R.frames[inframe]
            key = R.name + "<" + (by if by else frame.name)
            sh = self.share(path)
            mark = sh.marks.get(key)
            r = False
            if mark is not None and sh.stamp is not None:
                r = (mark.stamp is None) or (sh.stamp > mark.stamp) or \
                    (sh.stamp == mark.stamp and mark.used != mark.stamp)
        elif k == "changed":
            _, path, inframe, by, _neg = n
            frame = F if (inframe is None or inframe == "me") else R.frames[inframe]
            key = R.name + "<" + (by if by else frame.name)
            sh = self.share(path)
            mark = sh.marks.get(key)
            r = False
            if mark is not None:
                if mark.data is None:
                    r = True
                else:
                    for f, v in sh.fields.items():
                        if f not in mark.data or mark.data[f] != v:
                            r = True
                            break
        else:
            raise RefError("unknown need %r" % (n,))
        r = bool(r)
        return (not r) if neg else r

    def transit_marks(self, F, needs):
        for n in needs:
            if n[0] in ("updated", "changed"):
                _, path, inframe, by, _neg = n
                R = F.framer
                frame = F if (inframe is None or inframe == "me") else R.frames[inframe]
                key = R.name + "<" + (by if by else frame.name)
                self.mark(n[0], path, key, transit=True)

    def mark(self, kind, path, key, transit):
        sh = self.share(path)
        mark = sh.marks.get(key)
        if mark is None:
            return
        if kind == "updated":
            mark.stamp = self.now
            if transit:
                mark.used = mark.stamp
        else:
            mark.data = dict(sh.fields)

    # ------------------------------------------------------------------ acts
    def act(self, F, ctx, a):
        """Execute one act; returns its (truthiness-relevant) return value."""
        k = a[0]
        if k == "acc":
            n = self.acc_counts[F.framer.name] = self.acc_counts.get(F.framer.name, 0) + 1
            self.log.append((F.framer.name, F.name, ctx, "acc:%d" % n))
            return None
        if k == "rec":
            self.log.append((F.framer.name, F.name, ctx, a[2]))
            return True if ctx == "benter" else None
        if k == "need":
            return self.need(F, a[1])
        if k == "go":
            return self.transition(F, a[1], a[2])
        if k == "auxif":
            return self.suspender(F, self.framers[a[1]], a[2])
        if k == "deactivize":
            aux = self.framers[a[1]]
            if not aux.done:
                self.deactivate(aux)
            return None
        if k == "marker":
            self.mark(a[1], a[2], a[3], transit=False)
            return None
        if k == "done":
            names = a[2] or ["me"]
            for nm in names:
                (F.framer if nm == "me" else self.framers[nm]).done = True
            return None
        if k == "bid":
            _, _ctx, control, targets, period = a
            tgts = []
            for t in targets:
                if t == "all":
                    tgts.extend(self.order)
                elif t == "me":
                    tgts.append(F.framer)
                else:
                    tgts.append(self.framers[t])
            for t in tgts:
                if period is not None and control in ("start", "run", "ready"):
                    t.period = max(0.0, period)
                t.desire = control
            return None
        if k == "fiat":
            tgt = self.framers[a[3]]
            status = self.send(tgt, a[2])
            want = {"ready": READIED, "start": STARTED, "run": RUNNING, "stop": STOPPED, "abort": ABORTED}[a[2]]
            self.log.append(("~fiat", tgt.name, a[2], str(status == want)))
            return status == want
        if k == "put":
            self.share(a[3], True)
            self.update(a[3], value=a[2])
            return None
        if k == "rear":
            self.rear(F, a[2], a[3])
            return None
        if k == "raze":
            self.raze(F, a[2], a[3])
            return None
        if k == "inc":
            sh = self.share(a[2])
            self.update(a[2], value=sh.fields["value"] + a[3])
            return None
        if k == "copy":
            self.update(a[3], value=self.share(a[2]).fields["value"])
            return None
        if k == "putf":
            self.share(a[3], True)
            self.update(a[3], **dict(a[2]))
            return None
        if k == "copyf":
            src = self.share(a[3])
            self.update(a[5], **{d: src.fields[s_] for s_, d in zip(a[2], a[4])})
            return None
        if k == "incf":
            sh = self.share(a[3])
            self.update(a[3], **{a[2]: sh.fields[a[2]] + a[4]})
            return None
        if k == "set":
            self.share(a[2], True)
            self.update(a[2], value=a[3])
            return None
        if k == "setfrom":
            self.share(a[2], True)
            self.update(a[2], value=self.share(a[3]).fields["value"])
            return None
        raise RefError("unknown act %r" % (a,))

    # ------------------------------------------------------------------ rear / raze (run-time clones)
    def add_framer(self, fm):
        R = RFramer(fm["name"])
        R.schedule = fm.get("schedule", "aux")
        R.original = fm.get("original", True)
        R.insular = bool(fm.get("insular"))
        R.aux_tags = {t: True for t in fm.get("clone_tags", [])}
        self.framers[R.name] = R
        for p in ("elapsed", "recurred", "active", "human"):
            sh = self.share("framer.%s.state.%s" % (R.name, p), True)
            sh.fields["value"] = {"elapsed": 0.0, "recurred": 0, "active": "", "human": ""}[p]
        for fr in fm["frames"]:
            R.frames[fr["name"]] = RFrame(fr["name"], R)
        und, ov, nx = lang.unders_of(fm), lang.over_of(fm), lang.next_of(fm)
        for fr in fm["frames"]:
            F = R.frames[fr["name"]]
            F.over = R.frames[ov[fr["name"]]] if ov.get(fr["name"]) else None
            F.unders = [R.frames[u] for u in und[fr["name"]]]
            F.next = R.frames[nx[fr["name"]]] if nx.get(fr["name"]) else None
            F.outline = [R.frames[n] for n in lang.outline(fm, fr["name"])]
            F.head = [R.frames[n] for n in lang.head(fm, fr["name"])]
        R.first = R.frames[lang.first_of(fm)]
        return R

    def fill_acts(self, fm):
        R = self.framers[fm["name"]]
        for fr in fm["frames"]:
            F = R.frames[fr["name"]]
            for it in fr["items"]:
                k = it[0]
                if k in ("rec", "acc"):
                    self._ctxlist(F, it[1]).append(it)
                elif k == "go":
                    F.preacts.append(("go", it[1], list(it[2])))
                elif k == "timeout":
                    F.preacts.append(("go", "next", [("elapsed", ">=", float(abs(it[1])), False)]))
                elif k == "repeat":
                    F.preacts.append(("go", "next", [("recurred", ">=", int(abs(it[1])), False)]))
                elif k == "let":
                    for n in it[1]:
                        F.beacts.append(("need", n))
                elif k == "aux":
                    F.auxes.append(self.framers[it[1]])
                elif k == "auxif":
                    F.preacts.append(("auxif", it[1], list(it[2])))
                else:
                    self._ctxlist(F, it[1]).append(it)
        for fr in fm["frames"]:
            F = R.frames[fr["name"]]
            for lst in (F.beacts, F.enacts, F.reacts, F.preacts, F.exacts, F.rexacts, F.renacts):
                for act in list(lst):
                    self._resolve_act(F, act)

    def rear(self, F, orig, frame):
        """rear <moot> as mine be aux in frame <frame>: a new insular, razeable clone is attached to
        <frame> (not allowed inside the acting frame's own outline); it starts when <frame> is next entered."""
        R = F.framer
        target = R.frames[frame]
        if target in F.outline:
            return
        n = 1
        while ("%s%d" % (orig, n)) in R.aux_tags:
            n += 1
        tag = "%s%d" % (orig, n)
        R.aux_tags[tag] = True
        name = "%s_%s" % (R.name, tag)
        made = lang.instantiate(self.moots, self.moots[orig], name, (R.name, target.name))
        new = [self.add_framer(fm) for fm in made]
        for fm in made:
            if fm.get("fixed_main"):
                mf, mfr = fm["fixed_main"]
                self.framers[fm["name"]].main = self.framers[mf].frames[mfr]
        for fm in made:
            self.fill_acts(fm)
        C = self.framers[name]
        C.insular = True
        C.razeable = True
        C.tag = tag
        target.auxes.append(C)

    def prune(self, C):
        if not C.done:
            self.exit_all(C)
        for Fr in C.frames.values():
            for aux in [a for a in Fr.auxes if getattr(a, "insular", False)]:
                self.prune(aux)
                Fr.auxes.remove(aux)
        self.framers.pop(C.name, None)
        self.razed.append(C.name)

    def raze(self, F, who, frame):
        R = F.framer
        target = F if frame in (None, "me") else R.frames[frame]
        cands = [a for a in target.auxes if getattr(a, "insular", False) and getattr(a, "razeable", False)]
        if who == "first":
            cands = cands[:1]
        elif who == "last":
            cands = cands[-1:]
        for aux in cands:
            self.prune(aux)
            target.auxes.remove(aux)
            R.aux_tags.pop(getattr(aux, "tag", None), None)

    # ------------------------------------------------------------------ frames
    def frame_check_enter(self, F, exits):
        for a in F.beacts:
            if not self.act(F, "benter", a):
                return False
        for aux in F.auxes:
            if aux.main is not None and aux.main is not F and aux.main not in exits:
                return False
            if not self.check_start(aux):
                return False
        return True

    def frame_enter(self, F):
        for a in F.enacts:
            self.act(F, "enter", a)
        for aux in F.auxes:
            if aux.original:
                aux.main = F
            self.enter_all(aux)

    def frame_exit(self, F):
        for aux in F.auxes:
            self.exit_all(aux)
            if aux.original:
                aux.main = None
        for a in list(F.exacts):
            self.act(F, "exit", a)

    def frame_recur(self, F):
        for a in F.reacts:
            self.act(F, "recur", a)
        for aux in F.auxes:
            self.recur(aux)

    def frame_precur(self, F):
        for a in F.preacts:
            if self.act(F, "precur", a):
                return True
        return False

    # ------------------------------------------------------------------ framers
    def set_elapsed(self, R):
        self.update("framer.%s.state.elapsed" % R.name, value=R.elapsed)

    def set_recurred(self, R):
        self.update("framer.%s.state.recurred" % R.name, value=R.recurred)

    def check_start(self, R):
        return self.check_enter(R, R.first.outline, [])

    def check_enter(self, R, enters, exits):
        if not enters:
            return False
        claimed = []
        for F in enters:
            if not self.frame_check_enter(F, exits):
                return False
            for aux in F.auxes:          # one original auxiliary cannot be entered by two frames at once
                if aux.original:
                    if aux in claimed:
                        return False
                    claimed.append(aux)
        return True

    def activate(self, R, F):
        R.active = F
        R.active_name = F.name
        R.actives = list(F.outline)

    def enter(self, R, enters):
        if enters:
            R.stamp = self.now
            R.elapsed = 0.0
            self.set_elapsed(R)
            R.recurred = 0
            self.set_recurred(R)
        for F in enters:
            self.frame_enter(F)

    def enter_all(self, R):
        R.done = False
        self.activate(R, R.first)
        self.enter(R, list(R.actives))

    def recur(self, R):
        for F in list(R.actives):
            self.frame_recur(F)

    def segue(self, R):
        R.elapsed = self.now - R.stamp
        self.set_elapsed(R)
        R.recurred += 1
        self.set_recurred(R)
        for F in list(R.actives):
            for aux in F.auxes:
                self.segue(aux)
        for F in list(R.actives):      # iterates the list as it was when the loop began
            if self.frame_precur(F):
                return True
        return None

    def exit_all(self, R, abort=False):
        # the full outline: frames suspended under a conditional auxiliary are entered, so they are exited
        exits = list(R.active.outline) if R.active is not None else list(R.actives)
        exits.reverse()
        for F in exits:
            self.frame_exit(F)
        R.actives = []
        R.active = None
        if not abort:
            R.done = True

    @staticmethod
    def exen(nears, far):
        fars = far.outline
        for i in range(min(len(nears), len(fars))):
            if nears[i] is far or nears[i] is not fars[i]:
                return nears[i:], fars[i:], nears[:i]
        return [], [], nears[:]

    def transition(self, near, far, needs):
        R = near.framer
        if far == "next":
            farF = near.next
        elif far == "me":
            farF = near
        else:
            farF = R.frames[far]
        for n in needs:
            if not self.need(near, n):
                return None
        exits, enters, reexens = self.exen(list(R.actives), farF)
        if exits and R.active is not None:
            exits = list(R.active.outline[len(reexens):])    # incl. frames suspended below a conditional aux
        if not self.check_enter(R, enters, exits):
            return None
        self.transit_marks(near, needs)
        for F in reversed(exits):
            self.frame_exit(F)
        for F in reversed(reexens):
            for a in F.rexacts:
                self.act(F, "rexit", a)
        for F in reexens:
            for a in F.renacts:
                self.act(F, "renter", a)
        self.enter(R, enters)
        self.activate(R, farF)
        return farF

    def deactivate(self, aux):
        self.exit_all(aux)
        if aux.original:
            aux.main = None

    def suspender(self, main, aux, needs):
        R = main.framer
        if aux.done:
            for n in needs:
                if not self.need(main, n):
                    return None
            if aux.main is not None and aux.main is not main:
                return None
            if not self.check_start(aux):
                return None
            self.transit_marks(main, needs)
            if aux.original:
                aux.main = main
            self.enter_all(aux)
            self.recur(aux)
            if aux.done:
                self.deactivate(aux)
                return None
            R.actives = list(main.head)
            return aux
        else:
            self.segue(aux)
            self.recur(aux)
            if aux.done:
                self.deactivate(aux)
                R.actives = list(R.active.outline)
                # another conditional auxiliary of main or of a frame below it may still be running:
                # the frames below ITS main frame stay suspended
                start = len(main.head) - 1
                for Fr in R.active.outline[start:]:
                    for a in Fr.preacts:
                        if a[0] == "auxif" and self.framers[a[1]] is not aux:
                            other = self.framers[a[1]]
                            if not other.done and other.main is Fr:
                                R.actives = list(Fr.head)
                                return None
                return None
            return aux

    # ------------------------------------------------------------------ control/status machine (A.2)
    def send(self, R, control):
        if not R.alive:
            raise StopIteration
        st = R.status
        running = st in (RUNNING, STARTED)
        idle = st in (STOPPED, READIED)
        if control == RUN:
            if running:
                self.segue(R)
                self.recur(R)
                R.status = RUNNING
            elif idle:
                R.desire = START
            else:
                R.desire = ABORT
                R.status = ABORTED
        elif control == READY:
            if idle:
                if self.check_start(R):
                    R.status = READIED
                else:
                    R.desire = STOP
                    R.status = STOPPED
            elif running:
                pass
            else:
                R.desire = ABORT
                R.status = ABORTED
        elif control == START:
            if idle:
                if self.check_start(R):
                    R.desire = RUN
                    self.enter_all(R)
                    self.recur(R)
                    R.status = STARTED
                else:
                    R.desire = STOP
                    R.status = STOPPED
            elif running:
                R.desire = RUN
            else:
                R.desire = ABORT
                R.status = ABORTED
        elif control == STOP:
            if running:
                R.desire = STOP
                self.exit_all(R, abort=True)
                R.status = STOPPED
            elif idle:
                pass
            else:
                R.desire = ABORT
                R.status = ABORTED
        else:
            if running:
                self.exit_all(R)
            R.desire = ABORT
            R.status = ABORTED
        return R.status

    # ------------------------------------------------------------------ scheduler (A.1)
    def snapshot(self, R):
        return (R.name, R.status, R.desire, bool(R.done),
                R.active.name if R.active is not None else None,
                tuple(F.name for F in R.actives),
                self.share("framer.%s.state.elapsed" % R.name).fields["value"],
                self.share("framer.%s.state.recurred" % R.name).fields["value"],
                R.main.name if R.main is not None else None)

    def run(self, horizon, env_front=None, env_back=None, watch=(), stamp=0.0):
        out = RunOut()
        self.now = float(abs(stamp))
        ready = []
        for R in self.order:
            R.desire = START if R.schedule == "active" else STOP
            R.status = STOPPED
            ready.append([R, self.now, R.period])
        k = 0
        live = True          # harness back tasker still issuing snapshots
        self.log = []
        while True:
            if env_front is not None and live:
                for path, v in (env_front(k) or {}).items():
                    self.update(path, **(v if isinstance(v, dict) else dict(value=v)))
            more = False
            nxt = []
            for R, due, per in ready:
                if due > self.now:
                    nxt.append([R, due, per])
                    status = R.status
                else:
                    ctl = R.desire
                    status = self.send(R, ctl)
                    out.controls.append((self.now, R.name, ctl, status))
                    if status == ABORTED:
                        pass
                    else:
                        nxt.append([R, due + R.period, R.period])
                if status in (RUNNING, STARTED):
                    more = True
            ready = nxt
            if live:
                if env_back is not None:
                    for path, v in (env_back(k) or {}).items():
                        self.update(path, **(v if isinstance(v, dict) else dict(value=v)))
                snap = {"k": k, "stamp": self.now, "framers": [self.snapshot(R) for R in self.framers.values()],
                        "shares": {}}
                for p in watch:
                    sh = self.store.get(p.strip("."))
                    if sh is not None:
                        snap["shares"][p] = (tuple(sh.fields.items()), sh.stamp)
                        if sh.marks:
                            snap.setdefault("marks", {})[p] = tuple(
                                (key, m.stamp, m.used, None if m.data is None else tuple(sorted(m.data.items())))
                                for key, m in sh.marks.items())
                out.ticks.append(snap)
                out.events.append(self.log)
                self.log = []
                k += 1
                if k >= horizon:
                    for R in self.order:
                        R.desire = STOP
                    live = False
            else:
                post = getattr(self, "_post", 0) + 1
                self._post = post
                if post >= 4:       # mirror of the harness: bid abort to all four ticks after the stop bid
                    for R in self.order:
                        R.desire = ABORT
            # the real harness taskers are always in the ready queue, so `not ready` never triggers
            if not more:
                break
            self.now += self.tick
        # abort sweep
        trailing = self.log
        self.log = []
        for R, due, per in ready:
            self.send(R, ABORT)
        out.events.append(trailing + self.log)
        out.final = {"framers": [self.snapshot(R) for R in self.framers.values()],
                     "registry": sorted(self.framers), "razed": list(self.razed)}
        return out
