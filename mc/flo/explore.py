"""
Engine A: explicit-state BFS over environment-input histories of one FloScript program.

A state is the input history that reaches it (ioflo objects hold live generators, so every
state is materialised by rebuilding the program with the real Builder and replaying the
history through the real Skedder).  After the last input tick the harness bids stop to all,
so every reachable state is also exercised through the stop / abort-sweep path.

    stats = explore(prog, alphabet, depth, on_run, canon=None, back_alphabet=None)

alphabet: list of {path: value} dicts written by the front harness tasker at the start of a tick.
on_run(prog, envf, envb, rr, text) is called for every executed history (rr: real.RunResult).
"""
from mc.flo import lang, real, conform


def clock_caps(prog):
    """framer name -> (elapsed cap, recurred cap) or None per clock when the framer never reads it.
    A clock value above every constant it is compared with is indistinguishable from any other such
    value for all six comparison operators, so the canonical form caps it just above the maximum."""
    tick = prog.get("tick", 0.125)
    caps = {}
    for fm in prog["framers"]:
        emax, rmax = None, None
        for fr in fm["frames"]:
            for it in fr["items"]:
                needs = []
                if it[0] == "timeout":
                    emax = max(emax or 0, abs(it[1]))
                elif it[0] == "repeat":
                    rmax = max(rmax or 0, abs(it[1]))
                elif it[0] == "go":
                    needs = it[2]
                elif it[0] == "let":
                    needs = it[1]
                elif it[0] == "auxif":
                    needs = it[2]
                for n in needs:
                    if n[0] == "elapsed":
                        emax = max(emax or 0, abs(n[2]))
                    elif n[0] == "recurred":
                        rmax = max(rmax or 0, abs(n[2]))
        caps[fm["name"]] = (None if emax is None else emax + tick, None if rmax is None else rmax + 1)
    return caps


def default_canon(rr, k, caps, canon_paths=None, value_caps=None):
    """Canonical form of the state at the end of tick k of a real run: framer statuses, active
    outline, done/main, capped clocks (only those the framer reads), watched shares with stamps as ages."""
    snap = rr.ticks[k]
    now = snap["stamp"]
    fr = []
    for s in snap["framers"]:
        t = (s[0], s[1], s[2], s[3], s[4], s[5], s[8])
        ecap, rcap = caps.get(s[0], (None, None))
        if ecap is not None and s[4] is not None:
            t += (min(s[6], ecap),)
        if rcap is not None and s[4] is not None:
            t += (min(s[7], rcap),)
        fr.append(t)
    # Stamps enter ioflo's decisions only through comparisons with each other and with the current
    # time (share.stamp > mark.stamp, ==, used != stamp), so they are canonicalised to their rank
    # (0 = now, 1 = most recent earlier stamp, ...).
    stamps = {now}
    shares = {p: v for p, v in snap["shares"].items() if canon_paths is None or p in canon_paths}
    for p, (fields, stamp) in shares.items():
        if stamp is not None:
            stamps.add(stamp)
    for p, marks in (snap.get("marks") or {}).items():
        for (key, mstamp, used, data) in marks:
            if mstamp is not None:
                stamps.add(mstamp)
            if used is not None:
                stamps.add(used)
    rank = {v: i for i, v in enumerate(sorted(stamps, reverse=True))}
    sh = []
    for p, (fields, stamp) in sorted(shares.items()):
        if value_caps and p in value_caps:
            # a counter only ever compared with constants below the cap: larger values are indistinguishable
            fields = tuple((f, min(v, value_caps[p]) if isinstance(v, (int, float)) and not isinstance(v, bool) else v)
                           for f, v in fields)
        sh.append((p, fields, None if stamp is None else rank[stamp]))
    mk = []
    for p, marks in sorted((snap.get("marks") or {}).items()):
        for (key, mstamp, used, data) in marks:
            mk.append((p, key, None if mstamp is None else rank[mstamp],
                       None if used is None else rank[used], data))
    return (tuple(fr), tuple(sh), tuple(mk))


def explore(prog, alphabet, depth, on_run, watch=(), back_alphabet=None, canon=None, max_states=None, canon_paths=None, value_caps=None):
    """canon_paths: watched shares that are READ by the program (others are write-only outputs: compared by on_run but not part of the state)."""
    caps = clock_caps(prog)
    backs = back_alphabet or [None]
    seen = set()
    frontier = [()]
    states = 0
    transitions = 0
    runs = 0
    capped = False
    maxd = 0
    text = lang.emit(prog)
    while frontier:
        nxt = []
        for hist in frontier:
            for i in range(len(alphabet)):
                for j in range(len(backs)):
                    h2 = hist + ((i, j),)
                    envf = {k: alphabet[a] for k, (a, b) in enumerate(h2) if alphabet[a]}
                    envb = {k: backs[b] for k, (a, b) in enumerate(h2) if backs[b]}
                    br = real.build_text(text)
                    if not br.ok:
                        on_run(prog, envf, envb, None, text, br)
                        return dict(states=0, transitions=0, runs=runs, capped=False, max_depth=0, build_failed=True)
                    rr = real.run(br.houses, tick=prog.get("tick", 0.125), horizon=len(h2),
                                  env_front=conform.env_fn_real(envf), env_back=conform.env_fn_real(envb),
                                  watch=watch)
                    if rr.outcome == "watchdog":     # machine stall or genuine hang? rebuild and retry once, 12x limit
                        br = real.build_text(text)
                        if br.ok:
                            rr = real.run(br.houses, tick=prog.get("tick", 0.125), horizon=len(h2),
                                          env_front=conform.env_fn_real(envf), env_back=conform.env_fn_real(envb),
                                          watch=watch, limit=240.0)
                    runs += 1
                    transitions += 1
                    stop = on_run(prog, envf, envb, rr, text, br)
                    maxd = max(maxd, len(h2))
                    if stop or rr.outcome != "returned" or len(rr.ticks) < len(h2):
                        continue   # violation recorded by on_run or run ended early: do not expand
                    key = canon(rr, len(h2) - 1, caps) if canon else default_canon(rr, len(h2) - 1, caps, canon_paths, value_caps)
                    if key in seen:
                        continue
                    seen.add(key)
                    states += 1
                    if len(h2) < depth:
                        nxt.append(h2)
                    else:
                        capped = True
                    if max_states and states >= max_states:
                        capped = True
                        nxt = []
                        break
        frontier = nxt
    return dict(states=states, transitions=transitions, runs=runs, capped=capped, max_depth=maxd)
