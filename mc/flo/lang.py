"""
Engine A: a small AST for FloScript programs and its emitter (AST -> FloScript text).

Plain data (dicts / tuples) so programs are hashable-ish, JSON-able and easy to enumerate.

Prog    = dict(framers=[Framer...], tick=float, inits=[(path, value)...])
Framer  = dict(name, schedule in {'active','inactive','aux','slave','moot'}, order in {'front','mid','back'},
               period=float, first=None|str, frames=[Frame...])
Frame   = dict(name, over=None|str, under=None|str, next=None|str, items=[Item...])
Item    (script order matters):
  ('rec', ctx, tag)                         do rec with tag "<tag>" at <ctx>
  ('go', far, [needs])                      far: frame name | 'next' | 'me'
  ('let', [needs])
  ('timeout', T) / ('repeat', N)
  ('aux', name)                             plain auxiliary (original, by name)
  ('auxif', name, [needs])                  conditional auxiliary
  ('done', ctx, [names] | None)             None -> me
  ('bid', ctx, control, [targets], period|None)
  ('fiat', ctx, kind, target)               kind in ready,start,run,stop,abort
  ('put', ctx, value, path) / ('inc', ctx, path, value) / ('copy', ctx, src, dst)
  ('putf', ctx, [(field, value)...], path)   put f1 v1 f2 v2 into path   (path must not have a 'value' field)
  ('copyf', ctx, [srcfields], src, [dstfields], dst) / ('incf', ctx, field, path, value)
  ('set', ctx, path, value) / ('setfrom', ctx, path, srcpath)      goal verbs (behave like put / copy)
  need ('cmpf', field, path, op, goal, tol|None, neg)            field in path op goal
  ('auxclone', moot name, tag | 'mine')     aux <moot> as <tag>          (clone of a moot framer)
  ('rear', ctx, moot name, frame)           rear <moot> as mine be aux in frame <frame>
  ('raze', ctx, 'all'|'first'|'last', frame|None)
Paths may end in ' of framer', ' of framer main', ' of frame', ' of frame main' (relative addressing).
Need:
  ('cmp', path, op, goal, tol|None, neg)    direct goal (python value)
  ('cmpi', path, op, goalpath, tol|None, neg)
  item ('acc', ctx): `do acc at ctx` - appends to a list kept in the share framer.me.acclog and records its length
  ('bool', path, neg)
  ('elapsed', op, goal, neg) / ('recurred', op, goal, neg)
  ('done', tasker, neg)                     <tasker> is done
  ('auxdone', which, frame|None, neg)       which: 'any' | 'all' | aux name ; frame None -> 'me'
  ('status', tasker, status, neg)
  ('updated', path, inframe, by, neg) / ('changed', path, inframe, by, neg)
                                            inframe: None (no clause) | 'me' | frame name ; by: None | str
ctx in {'benter','enter','renter','precur','recur','exit','rexit'}
"""

CONTEXTS = ("benter", "enter", "renter", "precur", "recur", "exit", "rexit")


def lit(v):
    if isinstance(v, bool):
        return "true" if v else "false"
    if v is None:
        return "none"
    if isinstance(v, str):
        return '"%s"' % v
    if isinstance(v, float):
        r = repr(v)
        return r
    return repr(v)


def emit_need(n):
    k = n[0]
    neg = "not " if n[-1] else ""
    if k == "cmp":
        _, path, op, goal, tol, _neg = n
        s = "%s %s %s" % (path, op, lit(goal))
        if tol is not None:
            s += " +- %s" % lit(tol)
        return neg + s
    if k == "cmpf":
        _, field, path, op, goal, tol, _neg = n
        s = "%s in %s %s %s" % (field, path, op, lit(goal))
        if tol is not None:
            s += " +- %s" % lit(tol)
        return neg + s
    if k == "cmpi":
        _, path, op, gpath, tol, _neg = n
        s = "%s %s %s" % (path, op, gpath)
        if tol is not None:
            s += " +- %s" % lit(tol)
        return neg + s
    if k == "bool":
        return neg + n[1]
    if k in ("elapsed", "recurred"):
        return neg + "%s %s %s" % (k, n[1], lit(n[2]))
    if k == "done":
        return neg + "%s is done" % n[1]
    if k == "auxdone":
        _, which, frame, _neg = n
        s = which if which in ("any", "all") else "aux %s" % which
        if frame is not None:
            s += " in frame %s" % frame
        return neg + s + " is done"
    if k == "auxdonex":      # ('auxdonex', which, frame, framer, neg): done condition on a frame of ANOTHER framer
        _, which, frame, framer, _neg = n
        s = which if which in ("any", "all") else "aux %s" % which
        return neg + s + " in frame %s in framer %s is done" % (frame, framer)
    if k == "status":
        return neg + "%s is %s" % (n[1], n[2])
    if k in ("updated", "changed"):
        _, path, inframe, by, _neg = n
        s = "%s is %s" % (path, k)
        if inframe is not None:
            s += " in frame" + ("" if inframe == "me" else " " + inframe)
            if inframe == "me":
                s += " me"
        if by is not None:
            s += " by %s" % by
        return neg + s
    raise ValueError("unknown need %r" % (n,))


def emit_needs(needs):
    return " and ".join(emit_need(n) for n in needs)


def emit_item(it, ind):
    k = it[0]
    out = []

    def ctxline(ctx, line):
        out.append(ind + ctx)
        out.append(ind + "  " + line)
        out.append(ind + "native")

    if k == "acc":        # ('acc', ctx): harness doer keeping a per-FRAMER list (ioinit ipath framer.me.acclog, ival [])
        out.append(ind + 'do acc at %s' % (it[1],))
    elif k == "rec":
        out.append(ind + 'do rec with tag "%s" at %s' % (it[2], it[1]))
    elif k == "go":
        s = "go %s" % it[1]
        if it[2]:
            s += " if " + emit_needs(it[2])
        out.append(ind + s)
    elif k == "let":
        out.append(ind + "let me if " + emit_needs(it[1]))
    elif k == "timeout":
        out.append(ind + "timeout %s" % lit(it[1]))
    elif k == "repeat":
        out.append(ind + "repeat %s" % lit(it[1]))
    elif k == "aux":
        out.append(ind + "aux %s" % it[1])
    elif k == "auxif":
        out.append(ind + "aux %s if %s" % (it[1], emit_needs(it[2])))
    elif k == "auxclone":
        out.append(ind + "aux %s as %s" % (it[1], it[2]))
    elif k == "rear":
        ctxline(it[1], "rear %s as mine be aux in frame %s" % (it[2], it[3]))
    elif k == "raze":
        ctxline(it[1], "raze %s" % it[2] + ("" if it[3] is None else " in frame %s" % it[3]))
    elif k == "done":
        ctxline(it[1], "done" + ("" if not it[2] else " " + " ".join(it[2])))
    elif k == "bid":
        _, ctx, control, targets, period = it
        s = "bid %s %s" % (control, " ".join(targets))
        if period is not None:
            s += " at %s" % lit(period)
        ctxline(ctx, s)
    elif k == "fiat":
        ctxline(it[1], "%s %s" % (it[2], it[3]))
    elif k == "put":
        ctxline(it[1], "put %s into %s" % (lit(it[2]), it[3]))
    elif k == "inc":
        ctxline(it[1], "inc %s with %s" % (it[2], lit(it[3])))
    elif k == "copy":
        ctxline(it[1], "copy %s into %s" % (it[2], it[3]))
    elif k == "putf":
        ctxline(it[1], "put %s into %s" % (" ".join("%s %s" % (f, lit(v)) for f, v in it[2]), it[3]))
    elif k == "copyf":
        ctxline(it[1], "copy %s in %s into %s in %s" % (" ".join(it[2]), it[3], " ".join(it[4]), it[5]))
    elif k == "incf":
        ctxline(it[1], "inc %s in %s with %s" % (it[2], it[3], lit(it[4])))
    elif k == "set":
        ctxline(it[1], "set %s with %s" % (it[2], lit(it[3])))
    elif k == "setfrom":
        ctxline(it[1], "set %s from %s" % (it[2], it[3]))
    else:
        raise ValueError("unknown item %r" % (it,))
    return out


def emit(prog, house="h"):
    lines = ["house %s" % house]
    for path, value in prog.get("inits", []):
        if isinstance(value, dict):
            lines.append("  init %s with %s" % (path, " ".join("%s %s" % (f, lit(v)) for f, v in value.items())))
        else:
            lines.append("  init %s with %s" % (path, lit(value)))
    for fm in prog["framers"]:
        s = "  framer %s be %s" % (fm["name"], fm.get("schedule", "active"))
        if fm.get("order", "mid") != "mid":
            s += " in %s" % fm["order"]
        if fm.get("period"):
            s += " at %s" % lit(float(fm["period"]))
        if fm.get("first"):
            s += " first %s" % fm["first"]
        lines.append(s)
        for fr in fm["frames"]:
            s = "    frame %s" % fr["name"]
            if fr.get("over"):
                s += " in %s" % fr["over"]
            lines.append(s)
            if fr.get("under"):
                lines.append("      under %s" % fr["under"])
            if fr.get("next"):
                lines.append("      next %s" % fr["next"])
            for it in fr["items"]:
                lines.extend(emit_item(it, "      "))
    return "\n".join(lines) + "\n"


# ----------------------------------------------------------------------------- static helpers on the AST

def frame_index(fm):
    return {fr["name"]: fr for fr in fm["frames"]}


def unders_of(fm):
    """name -> ordered list of under names as ioflo builds them.
    An explicit `under X` reserves the first slot for X at build time.  `in Over` links are attached
    at resolve time: frames are resolved in declaration order and each one climbs its whole
    ancestor chain, attaching every not-yet-attached link on the way (so a grandchild declared
    early attaches its parent to the grandparent before that parent's elder siblings)."""
    und = {fr["name"]: [] for fr in fm["frames"]}
    ov = {fr["name"]: fr.get("over") for fr in fm["frames"]}
    for fr in fm["frames"]:
        if fr.get("under"):
            und[fr["name"]].append(fr["under"])
    attached = set()
    for fr in fm["frames"]:
        cur = fr["name"]
        seen = set()
        while ov.get(cur) in und and cur not in seen:
            seen.add(cur)
            over = ov[cur]
            if cur not in attached:
                attached.add(cur)
                if cur not in und[over]:
                    und[over].append(cur)
            cur = over
    return und


def over_of(fm):
    """name -> over name, including overs implied by `under` declarations."""
    ov = {fr["name"]: fr.get("over") for fr in fm["frames"]}
    return ov


def head(fm, name):
    ov = over_of(fm)
    out = []
    cur = name
    seen = set()
    while cur is not None and cur not in seen:
        seen.add(cur)
        out.append(cur)
        cur = ov.get(cur)
    out.reverse()
    return out


def outline(fm, name):
    und = unders_of(fm)
    out = head(fm, name)
    cur = name
    seen = set(out)
    while und.get(cur):
        cur = und[cur][0]
        if cur in seen:
            break
        seen.add(cur)
        out.append(cur)
    return out


def next_of(fm):
    """name -> next frame name: explicit `next`, else the lexically next frame, else None."""
    out = {}
    frames = fm["frames"]
    for i, fr in enumerate(frames):
        if fr.get("next"):
            out[fr["name"]] = fr["next"]
        elif i + 1 < len(frames):
            out[fr["name"]] = frames[i + 1]["name"]
        else:
            out[fr["name"]] = None
    return out


def first_of(fm):
    return fm.get("first") or (fm["frames"][0]["name"] if fm["frames"] else None)


# ----------------------------------------------------------------------------- relative paths and clones

def resolve_rel(path, fm, fr, mainfm, mainfr):
    """Documented relative addressing: `p of framer` -> framer.<this framer>.p ; `p of framer main` ->
    framer.<framer of the main frame>.p ; `p of frame` -> framer.<this framer>.frame.<this frame>.p ;
    `p of frame main` -> framer.<main framer>.frame.<main frame>.p ; anything else is absolute."""
    if " of " not in path:
        return path
    p, rel = path.split(" of ", 1)
    rel = " ".join(rel.split())
    if rel == "framer":
        return "framer.%s.%s" % (fm, p)
    if rel == "framer main":
        return "framer.%s.%s" % (mainfm, p)
    if rel == "frame":
        return "framer.%s.frame.%s.%s" % (fm, fr, p)
    if rel == "frame main":
        return "framer.%s.frame.%s.%s" % (mainfm, mainfr, p)
    raise ValueError("unsupported relation %r" % path)


def _subst_need(n, ctx):
    if n[0] in ("cmp", "bool", "updated", "changed"):
        return (n[0], resolve_rel(n[1], *ctx)) + tuple(n[2:])
    if n[0] == "cmpf":
        return (n[0], n[1], resolve_rel(n[2], *ctx)) + tuple(n[3:])
    if n[0] == "cmpi":
        return (n[0], resolve_rel(n[1], *ctx), n[2], resolve_rel(n[3], *ctx)) + tuple(n[4:])
    return n


def _subst_item(it, ctx):
    k = it[0]
    if k == "go":
        return ("go", it[1], [_subst_need(n, ctx) for n in it[2]])
    if k == "let":
        return ("let", [_subst_need(n, ctx) for n in it[1]])
    if k == "auxif":
        return ("auxif", it[1], [_subst_need(n, ctx) for n in it[2]])
    if k == "put":
        return ("put", it[1], it[2], resolve_rel(it[3], *ctx))
    if k == "inc":
        return ("inc", it[1], resolve_rel(it[2], *ctx), it[3])
    if k == "copy":
        return ("copy", it[1], resolve_rel(it[2], *ctx), resolve_rel(it[3], *ctx))
    if k == "putf":
        return ("putf", it[1], it[2], resolve_rel(it[3], *ctx))
    if k == "copyf":
        return ("copyf", it[1], it[2], resolve_rel(it[3], *ctx), it[4], resolve_rel(it[5], *ctx))
    if k == "incf":
        return ("incf", it[1], it[2], resolve_rel(it[3], *ctx), it[4])
    if k == "set":
        return ("set", it[1], resolve_rel(it[2], *ctx), it[3])
    if k == "setfrom":
        return ("setfrom", it[1], resolve_rel(it[2], *ctx), resolve_rel(it[3], *ctx))
    return it


def instantiate(prog_moots, fm, name, main=None, out=None):
    """Concrete copy of framer AST `fm` under `name` (relative paths resolved, clone items replaced by
    plain `aux <clone name>` of freshly instantiated clones).  main = (main framer name, main frame name)
    for clones.  Returns the list of concrete framers, this one first, nested clones after it in
    resolution order."""
    out = [] if out is None else out
    me = dict(fm)
    me["name"] = name
    if main is not None:
        me["schedule"] = "aux"
        me["original"] = False
        me["fixed_main"] = main
    out.append(me)
    frames = []
    counters = {}
    pending = []
    for fr in fm["frames"]:
        ctx = (name, fr["name"], main[0] if main else None, main[1] if main else None)
        items = []
        for it in fr["items"]:
            if it[0] == "auxclone":
                orig, tag = it[1], it[2]
                if tag == "mine":
                    counters[orig] = counters.get(orig, 0) + 1
                    tag = "%s%d" % (orig, counters[orig])
                cname = "%s_%s" % (name, tag)
                items.append(("aux", cname))
                pending.append((orig, cname, (name, fr["name"]), it[2] == "mine"))
                me.setdefault("clone_tags", []).append(tag)
            else:
                items.append(_subst_item(it, ctx))
        f2 = dict(fr)
        f2["items"] = items
        frames.append(f2)
    me["frames"] = frames
    for orig, cname, mn, insular in pending:
        sub = instantiate(prog_moots, prog_moots[orig], cname, mn, out=[])
        sub[0]["insular"] = insular
        out.extend(sub)
    return out


def desugar(prog):
    """Program without moots / clone items: every clone becomes an ordinary auxiliary framer named
    <parent name>_<tag> with a fixed main frame (the metamorphic reading of C12: a clone behaves like its
    original declared as an ordinary auxiliary).  Moot ASTs are kept under 'moots' for rear."""
    moots = {fm["name"]: fm for fm in prog["framers"] if fm.get("schedule") == "moot"}
    framers = []
    clones = []
    for fm in prog["framers"]:
        if fm.get("schedule") == "moot":
            continue
        got = instantiate(moots, fm, fm["name"])
        framers.append(got[0])
        clones.extend(got[1:])
    out = dict(prog)
    out["framers"] = framers + clones
    out["moots"] = moots
    return out
