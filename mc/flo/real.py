"""
Engine A, real side: build FloScript text with the real Builder from an in-memory file,
attach probes, run with the real Skedder to a horizon, return the observation log.

    core.use_repo() must have been called before importing this module.

Public:
    build_text(text, extra_files=None, limit=10.0) -> BuildResult(ok, houses, exc, kind)
    dump_house(house)                     -> structural dump (JSON-able) for C13/C15/C16
    run(houses, tick=..., horizon=..., env=None, crash=None) -> RunResult(events, snaps, ...)
    EVENTS                                -> list the `rec` doer appends to

The `rec` doer (FloScript:  do rec with tag "x" [at context]) records
(framer, frame, context, tag) and returns True in benter context, None elsewhere.
"""
import io
import os
import sys

from mc import core

import ioflo  # noqa: E402  (core.use_repo() was called by the importer)
from ioflo.aid.odicting import odict
from ioflo.base import building, housing, framing, acting, doing, tasking, skedding, storing, excepting
from ioflo.base import logging as iologging
from ioflo.base.globaling import (START, RUN, STOP, ABORT, READY, STOPPED, STARTED, RUNNING, READIED,
                                  ABORTED, ACTIVE, INACTIVE, AUX, SLAVE, MOOT,
                                  BENTER, ENTER, RECUR, PRECUR, EXIT, RENTER, REXIT, NATIVE,
                                  ActionContextNames, StatusNames, ControlNames, ScheduleNames)

STATUS = {STOPPED: "stopped", STARTED: "started", RUNNING: "running", READIED: "readied", ABORTED: "aborted"}
CONTROL = {START: "start", RUN: "run", STOP: "stop", ABORT: "abort", READY: "ready"}

# ----------------------------------------------------------------------------- in-memory files

class MemFile(io.StringIO):
    def __init__(self, text, name):
        super().__init__(text)
        self.name = name


class MemFiles:
    """Replacement for `open` inside ioflo.base.building."""

    def __init__(self, files):
        self.files = dict(files)

    def __call__(self, name, mode="r", *pa, **kwa):
        key = name
        if key not in self.files:
            key = os.path.basename(name)
        if key not in self.files:
            raise IOError(2, "No such in-memory file", name)
        return MemFile(self.files[key], name)


class BuildResult:
    __slots__ = ("ok", "houses", "exc", "kind", "builder", "tb")

    def __init__(self, ok, houses, exc=None, kind="", builder=None, tb=None):
        self.ok, self.houses, self.exc, self.kind, self.builder, self.tb = ok, houses, exc, kind, builder, tb

    def __repr__(self):
        return "BuildResult(ok=%r kind=%r exc=%r)" % (self.ok, self.kind, self.exc)


def build_text(text, extra_files=None, limit=10.0, name="/mem/main.flo", retry=True):
    """Build with the real Builder.  A watchdog hit is retried once with a 12x limit: on a heavily loaded
    machine a millisecond build can stall for seconds, and only a repeatable hang is a finding."""
    r = _build_text(text, extra_files, limit, name)
    if r.kind == "Watchdog" and retry:
        r = _build_text(text, extra_files, limit * 12, name)
    return r


def _build_text(text, extra_files=None, limit=10.0, name="/mem/main.flo"):
    """Build `text` with the real Builder.  Never raises except core.Watchdog-free: returns
    BuildResult with kind in: 'ok', 'false' (build returned False), 'ParseError',
    'ResolveError', other exception class name, or 'Watchdog'."""
    import traceback
    files = {name: text, os.path.basename(name): text}
    for k, v in (extra_files or {}).items():
        files[k] = v
    old_open = building.__dict__.get("open")
    building.open = MemFiles(files)
    b = building.Builder(fileName=name)
    try:
        with core.watchdog(limit):
            try:
                ok = b.build()
            except core.Watchdog:
                raise
            except Exception as ex:  # ParseError, or an internal error
                return BuildResult(False, [], ex, type(ex).__name__, b, traceback.extract_tb(sys.exc_info()[2]))
    except core.Watchdog as ex:
        return BuildResult(False, [], ex, "Watchdog", b)
    finally:
        if old_open is None:
            del building.open
        else:
            building.open = old_open
    if not ok:
        return BuildResult(False, [], None, "false", b)
    return BuildResult(True, b.houses, None, "ok", b)


# ----------------------------------------------------------------------------- recorder doer

EVENTS = []          # appended to by rec; the driver swaps / clears it
FAULT = {"at": None, "exc": None, "count": 0}   # crash injection: raise at the n-th rec call


def _ctxname(c):
    return ActionContextNames.get(c, str(c))


if "Rec" not in doing.Doer.Registry:
    @doing.doify("Rec", parms=odict(tag=""))
    def _rec(self, tag="", **kwa):
        act = self._act
        frame = act.frame
        ctx = act.context
        FAULT["count"] += 1
        EVENTS.append((frame.framer.name, frame.name, _ctxname(ctx), tag))
        if FAULT["at"] is not None and FAULT["count"] == FAULT["at"]:
            raise FAULT["exc"]
        return True if (ctx == BENTER or ctx == "benter") else None


if "Acc" not in doing.Doer.Registry:
    @doing.doify("Acc", ioinits=odict(acclog=odict(ipath="framer.me.acclog", ival=[])))
    def _acc(self, **kwa):
        """appends to the list held in the share framer.<this framer>.acclog (created from the MUTABLE default ival []) and
        records the list's length: every framer - every clone too - must see only its own appends."""
        act = self._act
        frame = act.frame
        lst = self.acclog.value
        lst.append(1)
        EVENTS.append((frame.framer.name, frame.name, _ctxname(act.context), "acc:%d" % len(lst)))
        return None


def watch_fiats():
    """Harness-side observation of fiat return values: wrap the five Fiat actor classes' action methods
    (idempotent) so each call appends ('~fiat', <slave name>, <kind>, str(result)) to EVENTS."""
    from ioflo.base import fiating
    for kind in ("Ready", "Start", "Run", "Stop", "Abort"):
        cls = getattr(fiating, "Fiat" + kind)
        if getattr(cls.action, "_verif_wrapped", False):
            continue
        orig = cls.action

        def make(orig, kind):
            def action(self, tasker, **kw):
                r = orig(self, tasker=tasker, **kw)
                EVENTS.append(("~fiat", tasker.name, kind.lower(), str(bool(r))))
                return r
            action._verif_wrapped = True
            return action
        cls.action = make(orig, kind)


# ----------------------------------------------------------------------------- structural dump

def _plain(v, depth=0):
    if depth > 6:
        return repr(v)
    if isinstance(v, (str, int, float, bool)) or v is None:
        return v
    if isinstance(v, framing.Framer):
        return "<framer %s>" % v.name
    if isinstance(v, framing.Frame):
        return "<frame %s>" % v.name
    if isinstance(v, tasking.Tasker):
        return "<tasker %s>" % v.name
    if isinstance(v, storing.Share):
        return "<share %s>" % v.name
    if isinstance(v, storing.Node):
        return "<node %s>" % v.name
    if isinstance(v, acting.Act):
        return dump_act(v, depth + 1)
    if isinstance(v, acting.Actor):
        return "<actor %s %s>" % (type(v).__name__, v.name)
    if isinstance(v, dict):
        return [[_plain(k, depth + 1), _plain(x, depth + 1)] for k, x in v.items()]
    if isinstance(v, (list, tuple)):
        return [_plain(x, depth + 1) for x in v]
    if isinstance(v, (set, frozenset)):
        return sorted(repr(x) for x in v)
    if isinstance(v, storing.Data):
        return [[k, _plain(x, depth + 1)] for k, x in v.__dict__.items()]
    return "<%s>" % type(v).__name__


def dump_actor(a, depth=0):
    out = {"class": type(a).__name__, "name": a.name}
    # io attributes (non-parametric doers get shares as attributes)
    attrs = {}
    names = []
    for klass in type(a).__mro__:
        names.extend(getattr(klass, "__slots__", ()) or ())
    names.extend(getattr(a, "__dict__", {}).keys())
    for n in sorted(set(names)):
        if n in ("name", "store", "_act", "_tracts"):
            continue
        try:
            attrs[n] = _plain(getattr(a, n), depth + 1)
        except AttributeError:
            pass
    if attrs:
        out["attrs"] = attrs
    tr = getattr(a, "_tracts", None)
    if tr:
        out["tracts"] = [dump_act(t, depth + 1) for t in tr]
    return out


def dump_act(act, depth=0):
    d = {"kind": type(act).__name__,
         "context": _ctxname(act.context) if act.context is not None else None,
         "inode": act.inode}
    if isinstance(act.actor, acting.Actor):
        d["actor"] = dump_actor(act.actor, depth + 1)
    else:
        d["actor"] = act.actor
    if isinstance(act, acting.SideAct):
        d["action"] = act.action
    d["parms"] = _plain(act.parms, depth + 1)
    return d


def dump_frame(fr):
    return {
        "name": fr.name, "inode": fr.inode,
        "over": fr.over.name if isinstance(fr.over, framing.Frame) else fr.over,
        "unders": [u.name if isinstance(u, framing.Frame) else u for u in fr.unders],
        "next": fr.next_.name if isinstance(fr.next_, framing.Frame) else fr.next_,
        "outline": [f.name for f in fr.outline],
        "auxes": [a.name if isinstance(a, framing.Framer) else repr(a) for a in fr.auxes],
        "beacts": [dump_act(a) for a in fr.beacts],
        "enacts": [dump_act(a) for a in fr.enacts],
        "renacts": [dump_act(a) for a in fr.renacts],
        "preacts": [dump_act(a) for a in fr.preacts],
        "reacts": [dump_act(a) for a in fr.reacts],
        "exacts": [dump_act(a) for a in fr.exacts],
        "rexacts": [dump_act(a) for a in fr.rexacts],
    }


def dump_share_tree(store):
    out = []

    def walk(node, path):
        for k, v in node.items():
            p = path + "." + k if path else k
            if isinstance(v, storing.Share):
                out.append([p, [[f, _plain(x)] for f, x in v.items()], v.stamp])
            elif isinstance(v, storing.Node):
                walk(v, p)
    walk(store.shares, "")
    return out


VOLATILE_SHARES = ("realtime", "datetime", "ioflo.platform", "ioflo.version", "meta.filepath")


def dump_house(house, shares=True):
    d = {"name": house.name,
         "taskables": [t.name for t in house.taskables],
         "fronts": [t.name for t in house.fronts], "mids": [t.name for t in house.mids],
         "backs": [t.name for t in house.backs],
         "slaves": [t.name for t in house.slaves], "auxes": [t.name for t in house.auxes],
         "moots": [t.name for t in house.moots],
         "taskers": [], "framers": []}
    for t in house.taskers:
        if isinstance(t, framing.Framer):
            continue
        d["taskers"].append({"name": t.name, "class": type(t).__name__, "period": t.period,
                             "schedule": ScheduleNames.get(t.schedule, t.schedule),
                             "attrs": _tasker_attrs(t)})
    for fm in house.framers:
        d["framers"].append({
            "name": fm.name, "period": fm.period, "schedule": ScheduleNames.get(fm.schedule, fm.schedule),
            "first": fm.first.name if isinstance(fm.first, framing.Frame) else fm.first,
            "inode": fm.inode, "tag": fm.tag, "original": fm.original, "insular": fm.insular,
            "razeable": fm.razeable,
            "main": fm.main.name if isinstance(fm.main, framing.Frame) else fm.main,
            "auxes": list(fm.auxes.keys()),
            "frames": [dump_frame(fr) for fr in fm.frameNames.values()],
        })
    if shares:
        d["shares"] = [s for s in dump_share_tree(house.store)
                       if not any(s[0] == v or s[0].startswith(v + ".") or s[0].endswith("." + v)
                                  for v in VOLATILE_SHARES)]
    return d


def _tasker_attrs(t):
    out = {}
    if isinstance(t, iologging.Logger):
        out["flushPeriod"] = getattr(t, "flushPeriod", None)
        out["prefix"] = getattr(t, "prefix", None)
        out["keep"] = getattr(t, "keep", None)
        out["cyclePeriod"] = getattr(t, "cyclePeriod", None)
        out["fileSize"] = getattr(t, "fileSize", None)
        out["reuse"] = getattr(t, "reuse", None)
        logs = []
        for lg in getattr(t, "logs", []):
            logs.append({"name": lg.name, "kind": getattr(lg, "kind", None), "baseName": getattr(lg, "baseName", None),
                         "rule": getattr(lg, "rule", None),
                         "loggees": [[k, getattr(v, "name", repr(v))] for k, v in getattr(lg, "loggees", {}).items()],
                         "fields": _plain(getattr(lg, "fields", None))})
        out["logs"] = logs
    else:
        for k, v in sorted(getattr(t, "__dict__", {}).items()):
            if k in ("runner", "store", "status", "desire", "done", "stamp", "name", "period", "schedule"):
                continue
            out[k] = _plain(v)
    return out


# ----------------------------------------------------------------------------- running

class RunnerProxy:
    """Wraps tasker.runner; logs (tick, control, status|exception)."""

    def __init__(self, tasker, log, clock):
        self._gen = tasker.runner
        self._t = tasker
        self._log = log
        self._clock = clock

    def send(self, control):
        name = self._t.name
        stamp = self._clock()
        try:
            status = self._gen.send(control)
        except StopIteration:
            self._log.append((stamp, name, CONTROL.get(control, control), "StopIteration"))
            raise
        except BaseException as ex:
            self._log.append((stamp, name, CONTROL.get(control, control), "raised " + type(ex).__name__))
            raise
        self._log.append((stamp, name, CONTROL.get(control, control), STATUS.get(status, status)))
        return status

    def close(self):
        return self._gen.close()

    def __next__(self):
        return next(self._gen)


class HarnessTasker(tasking.Tasker):
    """Harness tasker whose behaviour is a python callable fn(tasker, control) -> status.
    By default always yields STOPPED so it never keeps the skedder alive."""

    def __init__(self, fn=None, **kwa):
        self.fn = fn
        super().__init__(**kwa)

    def makeRunner(self):
        self.status = STOPPED
        self.desire = STOP
        try:
            while True:
                control = (yield self.status)
                if self.fn is not None:
                    st = self.fn(self, control)
                    self.status = STOPPED if st is None else st
                else:
                    self.status = STOPPED
        finally:
            pass


def framer_snapshot(fm):
    return (fm.name, STATUS.get(fm.status, fm.status), CONTROL.get(fm.desire, fm.desire), bool(fm.done),
            fm.active.name if fm.active is not None else None,
            tuple(f.name for f in fm.actives),
            fm.elapsedShr.value, fm.recurredShr.value,
            fm.main.name if isinstance(fm.main, framing.Frame) else None,
            fm.activeShr.value, fm.humanShr.value)


class RunResult:
    __slots__ = ("events", "ticks", "controls", "outcome", "exc", "stamps", "final")

    def __init__(self):
        self.events = []      # per tick: list of rec events
        self.ticks = []       # per tick: dict(framers=[snapshots], shares={path: (fields, stamp)})
        self.controls = []    # RunnerProxy log
        self.outcome = ""     # 'returned' | 'raised X' | 'watchdog'
        self.exc = None
        self.stamps = []
        self.final = None     # snapshot after run() returned (after abort sweep)


def all_framers(house):
    """Every framer known to the house including run-time clones."""
    seen = []
    for fm in house.framers:
        if fm not in seen:
            seen.append(fm)
    # clones created at resolve/run time are registered in the tasker registry of the house
    for t in house.names["tasker"].values() if "tasker" in house.names else []:
        if isinstance(t, framing.Framer) and t not in seen:
            seen.append(t)
    return seen


def run(houses, tick=0.125, horizon=8, env_front=None, env_back=None, watch=(), limit=20.0,
        stop_at_horizon=True, proxy=True, stamp=0.0, on_tick_end=None):
    """Run built `houses` with a real Skedder.
        env_front(house, k) / env_back(house, k): harness actions at the start / end of tick k
        watch: share paths whose (fields, stamp) are snapshotted each tick
        At tick `horizon` (0-based count of completed ticks) every taskable's desire is set to STOP
        and all harness taskers report STOPPED, which ends the run after the following tick.
    Returns RunResult."""
    res = RunResult()
    EVENTS.clear()
    sk = skedding.Skedder(name="verif", period=tick, stamp=stamp, real=False, houses=houses)
    house = houses[0]
    house.assignRegistries()
    state = {"k": 0}
    cur_events = []

    def clock():
        return house.store.stamp

    def front_fn(t, control):
        if control == ABORT:
            return STOPPED
        if env_front is not None and control in (START, RUN):
            env_front(house, state["k"])
        return STOPPED

    def back_fn(t, control):
        if control == ABORT:
            return STOPPED
        k = state["k"]
        if control not in (START, RUN):
            # after the horizon: programs whose exit actions bid start again would run forever, so four
            # ticks after the stop bid every taskable is bid abort (the reference does the same)
            state["post"] = state.get("post", 0) + 1
            if state["post"] >= 4:
                for tk in house.taskables:
                    if not isinstance(tk, HarnessTasker):
                        tk.desire = ABORT
            return STOPPED
        if env_back is not None:
            env_back(house, k)
        # snapshot
        snap = {"k": k, "stamp": house.store.stamp,
                "framers": [framer_snapshot(fm) for fm in all_framers(house)],
                "shares": {}}
        for p in watch:
            sh = house.store.fetchShare(p)
            if sh is not None:
                snap["shares"][p] = (tuple(sh.items()), sh.stamp)
                if sh.marks:
                    snap.setdefault("marks", {})[p] = tuple(
                        (key, m.stamp, m.used, None if m.data is None else tuple(sorted(m.data.__dict__.items())))
                        for key, m in sh.marks.items())
        res.ticks.append(snap)
        res.events.append(list(EVENTS))
        EVENTS.clear()
        res.stamps.append(house.store.stamp)
        if on_tick_end is not None:
            on_tick_end(house, k, snap)
        state["k"] = k + 1
        if stop_at_horizon and state["k"] >= horizon:
            for tk in house.taskables:
                tk.desire = STOP
            return STOPPED
        return RUNNING if not stop_at_horizon else STOPPED

    front = HarnessTasker(fn=front_fn, name="verifFront", store=house.store, schedule=ACTIVE)
    back = HarnessTasker(fn=back_fn, name="verifBack", store=house.store, schedule=ACTIVE)
    house.taskables = [front] + list(house.taskables) + [back]
    if proxy:
        for t in house.taskables:
            if t is not front and t is not back:
                t.runner = RunnerProxy(t, res.controls, clock)
    try:
        with core.watchdog(limit):
            try:
                sk.run()
                res.outcome = "returned"
            except core.Watchdog:
                raise
            except BaseException as ex:
                res.outcome = "raised " + type(ex).__name__
                res.exc = ex
    except core.Watchdog as ex:
        res.outcome = "watchdog"
        res.exc = ex
    # trailing events (abort sweep) and final snapshot
    res.events.append(list(EVENTS))
    EVENTS.clear()
    res.final = {"framers": [framer_snapshot(fm) for fm in all_framers(house)],
                 "ready": [t.name for t, r, p in sk.ready],
                 "registry": sorted(n for n, t in house.names.get("tasker", {}).items() if isinstance(t, framing.Framer))}
    return res
