"""
Engine A helpers for the literal / addressing / comparison checks (C17, C13, C21).

    core.use_repo() must have been called before importing this module (it imports real.py).

* ref_convert(text, chain)   independent reference for the documented literal conversion order
* `lit` doer                 `do lit with v <literal>` records the keyword values it receives at run time
* acts_of(houses) / frame_acts(...)   walk every Act (including need sub-acts) of a built house
* share_refs(act)            resolved share / node names in an act's parameters (C13)

Nothing here changes mc/flo/real.py behaviour.
"""
import math

from mc import core
from mc.flo import real

from ioflo.aid.odicting import odict
from ioflo.base import doing, acting, storing, framing

# ----------------------------------------------------------------------------- reference converter
#
# Written from the documentation only:
#   building.py docstrings  "converts text to python type in order ... Int, hex, Float, Complex",
#   "FracDeg, Int, hex, Float, Complex", "Pxy, Pne, Pfs, Pxyz, Pned, Pfsb, Int, hex, Float, Complex",
#   "None, Boolean, ...", "... or double quoted string", "Need goal wants unitary type not path or point"
#   globaling.py comments on the lat/lon form  deg (N|E|S|W) min.frac -> deg + min/60 (negative for S, W)
#   and the six point namedtuples, plus the property statement's order
#   quoted string, none/true/yes/false/no, path text, lat/lon, typed points, decimal int, hex int,
#   float, complex.
# No regular expression of ioflo is used.

DIGITS = "0123456789"
HEXDIGITS = "0123456789abcdefABCDEF"
IDSTART = "abcdefghijklmnopqrstuvwxyzABCDEFGHIJKLMNOPQRSTUVWXYZ_"
IDREST = IDSTART + DIGITS


class Pt(tuple):
    """Reference-side point: (kind, coords...) ; kind in xy ne fs xyz ned fsb."""


def _ident(s):
    return bool(s) and s[0] in IDSTART and all(c in IDREST for c in s)


def is_path(text, node=True):
    """dotted identifiers, optional leading dot; optional trailing dot if node."""
    t = text
    if t.startswith("."):
        t = t[1:]
    if t.endswith("."):
        if not node:
            return False
        t = t[:-1]
    if not t:
        return False
    return all(_ident(s) for s in t.split("."))


def _digits_us(s, alphabet=DIGITS):
    """digit groups separated by single underscores (python numeric text rule)"""
    if not s:
        return False
    return all(g and all(c in alphabet for c in g) for g in s.split("_"))


def _sign(s):
    if s[:1] in ("+", "-"):
        return (-1 if s[0] == "-" else 1), s[1:]
    return 1, s


def ref_int(text):
    sg, t = _sign(text)
    if not _digits_us(t):
        return None
    v = 0
    for c in t:
        if c != "_":
            v = v * 10 + DIGITS.index(c)
    return sg * v


def ref_hex(text):
    sg, t = _sign(text)
    if t[:2] in ("0x", "0X"):
        t = t[2:]
        if t.startswith("_"):
            t = t[1:]
    if not _digits_us(t, HEXDIGITS):
        return None
    v = 0
    for c in t:
        if c != "_":
            v = v * 16 + "0123456789abcdef".index(c.lower())
    return sg * v


def _float_syntax(t):
    """unsigned: digits[.digits?] | .digits , optional exponent"""
    mant, exp = t, None
    for i, c in enumerate(t):
        if c in "eE":
            mant, exp = t[:i], t[i + 1:]
            break
    if exp is not None:
        _, e = _sign(exp)
        if not _digits_us(e):
            return False
    if "." in mant:
        a, b = mant.split(".", 1)
        if "." in b:
            return False
        if not a and not b:
            return False
        return (not a or _digits_us(a)) and (not b or _digits_us(b))
    return _digits_us(mant)


def ref_float(text):
    sg, t = _sign(text)
    if t.lower() in ("inf", "infinity"):
        return sg * math.inf
    if t.lower() == "nan":
        return math.nan
    if not _float_syntax(t):
        return None
    return float(("-" if sg < 0 else "") + t.replace("_", ""))


def ref_complex(text):
    t = text
    if t.startswith("(") and t.endswith(")"):
        t = t[1:-1]
    if not t or t[-1] not in "jJ":
        return None
    body = t[:-1]
    # split real and imaginary part at the last sign that is not an exponent sign / leading sign
    cut = None
    for i in range(len(body) - 1, 0, -1):
        if body[i] in "+-" and body[i - 1] not in "eE":
            cut = i
            break
    if cut is None:
        re_t, im_t = "", body
    else:
        re_t, im_t = body[:cut], body[cut:]
    if im_t in ("", "+", "-"):
        im = -1.0 if im_t == "-" else 1.0
    else:
        im = ref_float(im_t)
        if im is None:
            return None
    if re_t:
        re = ref_float(re_t)
        if re is None:
            return None
    else:
        re = 0.0
    return complex(re, im)


def ref_latlon(text):
    i = 0
    while i < len(text) and text[i] in DIGITS:
        i += 1
    if i == 0 or i >= len(text):
        return None
    letter = text[i]
    if letter not in "NESWnesw":
        return None
    rest = text[i + 1:]
    if rest.count(".") != 1:
        return None
    a, b = rest.split(".")
    if not a or not b or not all(c in DIGITS for c in a + b):
        return None
    v = float(text[:i]) + float(rest) / 60.0
    return -v if letter in "SWsw" else v


POINT_KINDS = {"xy": "xy", "ne": "ne", "fs": "fs", "xyz": "xyz", "ned": "ned", "fsb": "fsb"}


def ref_point(text):
    """coord letter coord letter [coord letter]; coord = sign? digits [. digits*]"""
    pos = 0
    coords, letters = [], ""
    while pos < len(text):
        j = pos
        if j < len(text) and text[j] in "+-":
            j += 1
        k = j
        while k < len(text) and text[k] in DIGITS:
            k += 1
        if k == j:
            return None
        if k < len(text) and text[k] == ".":
            k += 1
            while k < len(text) and text[k] in DIGITS:
                k += 1
        if k >= len(text):
            return None
        coords.append(float(text[pos:k]))
        letters += text[k].lower()
        pos = k + 1
    if letters not in POINT_KINDS:
        return None
    return Pt((letters,) + tuple(coords))


UNSPEC = ("unspec",)
REJECT = ("reject",)


def ref_num(text):
    """Int, hex, Float, Complex.  Returns ('val', v) | REJECT | UNSPEC."""
    v = ref_int(text)
    if v is not None:
        return ("val", v)
    h = ref_hex(text)
    f = ref_float(text)
    if h is not None:
        if f is not None:
            # e.g. 1e5: a bare hex digit string that is also float syntax.  The documented order
            # says hex before float, common sense says float; not decided by the documentation.
            return UNSPEC
        return ("val", h)
    if f is not None:
        return ("val", f)
    c = ref_complex(text)
    if c is not None:
        return ("val", c)
    return REJECT


def ref_convert(text, chain):
    """chain: 'direct' (parseDirect contexts), 'goal' (need goal: no path, no point; falls back to an
    indirect goal path), 'num' (tolerance, periods, timeout, repeat), 'period' (num with indirect
    fallback).  Returns ('val', v) | ('indirect', path) | REJECT | UNSPEC."""
    if chain in ("num", "period"):
        r = ref_num(text)
        if chain == "period" and is_path(text, node=False):
            if r != REJECT:
                return UNSPEC      # bare hex word / inf / nan / j: number or share path?
            return ("indirect", text)
        return r
    if len(text) >= 2 and text[0] == text[-1] and text[0] in "\"'" and text[0] not in text[1:-1]:
        return ("val", text[1:-1])
    low = text.lower()
    if low == "none":
        return ("val", None)
    if low in ("true", "yes"):
        return ("val", True)
    if low in ("false", "no"):
        return ("val", False)
    if chain == "direct":
        if is_path(text, node=True):
            return ("val", text)
    v = ref_latlon(text)
    if v is not None:
        return ("val", v)
    if chain == "direct":
        p = ref_point(text)
        if p is not None:
            return ("val", p)
    r = ref_num(text)
    if chain == "goal" and is_path(text, node=False):
        if r != REJECT:
            return UNSPEC
        return ("indirect", text)
    return r


def same_value(ref, got):
    """type AND value; ref may be a Pt (reference point), got the ioflo namedtuple."""
    if isinstance(ref, Pt):
        kind = ref[0]
        if type(got).__name__ != "P" + kind or not isinstance(got, tuple):
            return False
        if tuple(getattr(got, "_fields", ())) != tuple(kind):
            return False
        return len(got) == len(ref) - 1 and all(same_value(a, b) for a, b in zip(ref[1:], got))
    if type(ref) is not type(got):
        return False
    if isinstance(ref, float):
        if ref != ref:
            return got != got
        return ref == got and math.copysign(1.0, ref) == math.copysign(1.0, got)
    if isinstance(ref, complex):
        return (ref == got) or (ref != ref and got != got)
    return ref == got


def show(v):
    if isinstance(v, Pt):
        return "P%s%r" % (v[0], tuple(v[1:]))
    return "%s:%r" % (type(v).__name__, v)


# ----------------------------------------------------------------------------- lit doer

LITLOG = []      # (framer, frame, context, dict(kwargs))

if "Lit" not in doing.Doer.Registry:
    @doing.doify("Lit")
    def _lit(self, **kwa):
        act = self._act
        LITLOG.append((act.frame.framer.name, act.frame.name, real._ctxname(act.context),
                       dict((k, v) for k, v in kwa.items())))
        return None


# doer kinds whose class name (the actor name when no `as` clause is given) carries digits / an underscore:
#   do lit 2 -> Lit2, do lit 3 -> Lit3, do lit 4 -> Lit4, do lit_b -> Lit_b, do big lit 7 -> BigLit7
for _kind in ("Lit2", "Lit3", "Lit4", "Lit_b", "BigLit7"):
    if _kind not in doing.Doer.Registry:
        doing.doify(_kind)(lambda self, **kwa: None)


def name_segments(name):
    """Reference for aiding.nameToPath, from its docstring: camel case name -> node path where every upper case letter
    starts a new node (lower-cased); all other characters are kept.  Returns the list of segments."""
    segs, cur = [], ""
    for c in name:
        if c.isupper():
            if cur:
                segs.append(cur)
            cur = c.lower()
        else:
            cur += c
    if cur:
        segs.append(cur)
    return segs


# ----------------------------------------------------------------------------- act walkers

ACT_LISTS = ("beacts", "enacts", "renacts", "preacts", "reacts", "exacts", "rexacts")


def sub_acts(act):
    """need acts nested in a transiter / suspender / beact conjunction"""
    out = []
    parms = act.parms if isinstance(act.parms, dict) else {}
    needs = parms.get("needs")
    if isinstance(needs, (list, tuple)):
        for n in needs:
            if isinstance(n, acting.Act):
                out.append(n)
    return out


def frame_acts(frame):
    """[(listname, index, act, depth)] in script order, needs flattened after their owner"""
    out = []
    for ln in ACT_LISTS:
        for i, act in enumerate(getattr(frame, ln)):
            out.append((ln, (i,), act))
            for j, n in enumerate(sub_acts(act)):
                out.append((ln, (i, j), n))
    return out


def house_framers(house):
    return real.all_framers(house)


def acts_of(house):
    """[(framer name, frame name, listname, index tuple, act)]"""
    out = []
    for fm in house_framers(house):
        for fr in fm.frameNames.values():
            for ln, ix, act in frame_acts(fr):
                out.append((fm.name, fr.name, ln, ix, act))
    return out


def actor_name(act):
    a = act.actor
    return a.name if isinstance(a, acting.Actor) else str(a)


def actor_class(act):
    a = act.actor
    return type(a).__name__ if isinstance(a, acting.Actor) else str(a)


def _refs(v, prefix, out, depth=0):
    if depth > 5:
        return
    if isinstance(v, storing.Share):
        out.append((prefix, "share " + v.name))
    elif isinstance(v, storing.Node):
        out.append((prefix, "node " + v.name))
    elif isinstance(v, acting.Act):
        return
    elif isinstance(v, dict):
        for k, x in v.items():
            _refs(x, "%s.%s" % (prefix, k), out, depth + 1)
    elif isinstance(v, (list, tuple)) and not isinstance(v, str):
        for i, x in enumerate(v):
            _refs(x, "%s[%d]" % (prefix, i), out, depth + 1)


def share_refs(act):
    """[(parameter key, 'share a.b.c' | 'node a.b')] for every resolved store reference held by the act:
    its parms, and (non-parametric doers) the actor's attributes."""
    out = []
    if isinstance(act.parms, dict):
        for k, v in act.parms.items():
            _refs(v, "parm:" + str(k), out)
    a = act.actor
    if isinstance(a, acting.Actor):
        names = []
        for klass in type(a).__mro__:
            names.extend(getattr(klass, "__slots__", ()) or ())
        names.extend(getattr(a, "__dict__", {}).keys())
        for n in sorted(set(names)):
            if n in ("store", "_act", "_tracts", "name"):
                continue
            try:
                _refs(getattr(a, n), "attr:" + n, out)
            except AttributeError:
                pass
    return out
