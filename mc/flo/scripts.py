"""
Engine A helpers for the script-level checks C14 / C15 / C16.

    core.use_repo() must have been called before importing this module.

Public:
    build(text, extra_files=None, limit=..., name=None, metas=False) -> Built
    dump_full(house), dumps(built, drop_human=False)   canonical structural dump (string)
    failure_sig(built, strip_lines=False)              comparable description of a failed build
    classify(built)                                    C14 oracle: (accepted?, group, detail)
    load_plans()                                       {basename: text} of the example plans
    tokenize_line(line) / join_tokens(tokens)          token-level view of one script line
    CLAUSE_FAMILIES                                    C15 clause-permutation scaffolds
    layout transforms                                  C16 single edits / all-at-once variants

All enumerations here are deterministic (sorted, no sets iterated).
"""
import collections
import contextlib
import ctypes
import dis
import functools
import gc
import glob
import inspect
import itertools
import json
import os
import re
import sys
import threading
import time
import traceback

from mc import core
from mc.flo import real

import ioflo  # noqa: F401
from ioflo.aid.odicting import odict
from ioflo.base import building, excepting, doing, skedding, serving
from ioflo.base import logging as iologging
from ioflo.base.globaling import REO_Chunks

# The reserved words of FloScript, written out from the documentation (FloScript reference / the build*
# docstrings) - deliberately NOT read from ioflo.base.building at run time: a damaged Connectives list in
# ioflo must not silently shrink the set of places where the layout edits split a command.
CONNECTIVES = ["to", "by", "with", "from", "per", "for", "cum", "qua", "via", "as", "at", "in", "of", "on", "re",
               "is", "if", "be", "into", "and", "not", "+-"]
COMPARISONS = ["==", "<", "<=", ">=", ">", "!="]
RESERVED = CONNECTIVES + COMPARISONS
VERBS = list(building.VerbList)

PLAN_DIR = os.path.join(core.REPO, "ioflo", "app", "plan")
MEM_DIR = "/tmp"          # an existing directory: buildLoad chdir()s to the dir of the current file


# ----------------------------------------------------------------------------- robust watchdog
#
# core.watchdog arms a one-shot SIGALRM timer whose handler raises.  That is not enough for builds that
# spin: ioflo's framer runners are generators, and when runners of an earlier build are finalised inside
# the guarded region the raised Watchdog can land in such a finaliser, where Python swallows it
# ("Exception ignored in generator ...") and the hung build is never interrupted; with a periodic timer
# the signal machinery itself was observed (CPython 3.12, loaded machine) to stop delivering.
# So: a monitor thread injects core.Watchdog into the main thread with PyThreadState_SetAsyncExc and
# re-injects every 50 ms - but only while the guarded body is still on the main thread's stack, never
# while the `with` statement is being left (an injection there would skip the disarming).

class _Guard:
    """Class based context manager (no generator: nothing of ours is suspended while the body runs)."""
    __slots__ = ("seconds", "deadline", "gen")

    def __init__(self, seconds):
        self.seconds = seconds

    def __enter__(self):
        m = _monitor()
        m.gen += 1
        self.gen = m.gen
        self.deadline = time.monotonic() + self.seconds
        m.state = (m.gen, self.deadline, sys._getframe(1))
        return self

    def __exit__(self, typ, val, tb):
        m = _MON[0]
        while True:
            try:
                m.state = None
                if time.monotonic() >= self.deadline - 0.1:
                    # the monitor may be between its checks and the injection: wait until it has seen the
                    # disarmed state once, so that no injection can arrive after we leave
                    t = m.idle_ticks
                    while m.idle_ticks == t and m.is_alive():
                        time.sleep(0.002)
                ctypes.pythonapi.PyThreadState_SetAsyncExc(ctypes.c_ulong(m.target), None)   # drop a pending one
                if typ is not None and issubclass(typ, core.Watchdog) and val is not None \
                        and m.owner is not None and m.owner[0] == self.gen:
                    val.hang_owner = m.owner[1]      # (file, function) of the loop that was spinning
                return False
            except core.Watchdog:
                continue


_LEAVING = (_Guard.__exit__.__code__, _Guard.__enter__.__code__)


class _Monitor(threading.Thread):
    """Lock-free on purpose: the main thread only stores one attribute (atomic under the GIL), so an
    injected exception can never leave a lock held."""

    def __init__(self):
        super().__init__(daemon=True, name="verif-watchdog")
        self.state = None          # None (disarmed) or (generation, deadline, guarding frame)
        self.gen = 0
        self.idle_ticks = 0        # incremented whenever the monitor observes the disarmed state
        self.owner = None          # (generation, (file, function) | None) of the last interrupted hang
        self.target = threading.main_thread().ident
        self.pid = os.getpid()

    def body_running(self, guard):
        """True when `guard` (the frame holding the with statement) is on the main thread's stack and is
        executing a call that is not our own __enter__/__exit__."""
        f = sys._current_frames().get(self.target)
        child = None
        while f is not None:
            if f is guard:
                return child is not None and child.f_code not in _LEAVING
            child, f = f, f.f_back
        return False

    def stack_below(self, guard):
        """Frames of the main thread from the guarded body's first call down to the innermost (or None)."""
        f = sys._current_frames().get(self.target)
        chain = []
        while f is not None:
            if f is guard:
                chain.reverse()
                return chain
            chain.append(f)
            f = f.f_back
        return None

    @staticmethod
    def spinning(first, second):
        """Two snapshots taken >= 30 ms apart share exactly the invocations that lived that long; the deepest
        shared ioflo frame whose code holds a loop is the loop that does not end (its callees come and go).
        This names a hang the same way wherever inside the loop body the interrupt lands."""
        root = os.path.join(core.REPO, "ioflo") + os.sep
        best = None
        for a, b in zip(first, second):
            if a is not b:
                break
            code = a.f_code
            if code.co_filename.startswith(root) and os.path.basename(code.co_filename) not in UTILITY_FILES \
                    and _has_loop(code):
                best = (os.path.basename(code.co_filename), code.co_name)
        return best

    def run(self):
        last_gen, next_fire = None, 0.0
        first, first_at = None, 0.0
        inject = ctypes.pythonapi.PyThreadState_SetAsyncExc
        target = ctypes.c_ulong(self.target)
        exc = ctypes.py_object(core.Watchdog)
        while True:
            time.sleep(0.01)
            st = self.state
            if st is None:
                self.idle_ticks += 1
                first = None
                continue
            if st[0] != last_gen:
                last_gen, next_fire = st[0], st[1]
                first = None
            now = time.monotonic()
            if now >= next_fire and self.body_running(st[2]) and self.state is st:
                if first is None and (self.owner is None or self.owner[0] != st[0]):
                    first, first_at = self.stack_below(st[2]), now      # first snapshot: look again later
                    if first is not None:
                        st = None
                        continue
                if first is not None:
                    if now - first_at < 0.03:
                        st = None
                        continue
                    second = self.stack_below(st[2])
                    self.owner = (st[0], self.spinning(first, second or []))
                    first = second = None
                inject(target, exc)
                next_fire = time.monotonic() + 0.05
            st = None


_MON = [None]


def _monitor():
    m = _MON[0]
    if m is None or m.pid != os.getpid() or not m.is_alive():   # threads do not survive fork
        m = _MON[0] = _Monitor()
        m.start()
    return m


def _watchdog(seconds):
    return _Guard(seconds)


core.watchdog = _watchdog      # real.build_text / real.run look it up at call time


# ----------------------------------------------------------------------------- probe doer

if "Vprobe" not in doing.Doer.Registry:
    class Vprobe(doing.Doer):
        """Doer whose every init kwarg, ioi attribute and parm is visible in the dump."""

        def __init__(self, **kwa):
            extras = odict((k, v) for k, v in kwa.items() if k not in ("name", "store", "act"))
            super(Vprobe, self).__init__(**kwa)
            self.kw = extras

        def action(self, **kwa):
            return None


# ----------------------------------------------------------------------------- building

class _Capture:
    """Stands in for building.console during one build: keeps terse messages (the only
    place Builder.build reports why it returned False)."""

    def __init__(self, console):
        self._c = console
        self.msgs = []

    def __getattr__(self, name):
        return getattr(self._c, name)

    def terse(self, msg):
        self.msgs.append(msg)
        if len(self.msgs) > 64:
            del self.msgs[:32]


class Built:
    __slots__ = ("ok", "kind", "exc", "tb", "houses", "reason", "builder")

    def __init__(self, res, reason):
        self.ok, self.kind, self.exc, self.tb = res.ok, res.kind, res.exc, res.tb
        self.houses, self.builder = res.houses, res.builder
        self.reason = reason

    def __repr__(self):
        return "Built(%s %r %s)" % (self.kind, self.exc, self.reason[:80] if self.reason else "")


def skedder_metas(name="verif", period=0.125, plan="main.flo"):
    """The metas / preloads a Skedder hands to its Builder (skedding.Skedder.__init__)."""
    sk = skedding.Skedder(name=name, period=period, real=False, filepath=os.path.join(MEM_DIR, plan))
    return list(sk.metas), list(sk.preloads)


_BUILDS = [0]
# real.build_text re-runs a timed-out build with 12x the limit; the checks here do their own confirmation
_NO_RETRY = {"retry": False} if "retry" in inspect.signature(real.build_text).parameters else {}


def build(text, extra_files=None, limit=5.0, name=None, metas=False):
    """Build `text` through real.build_text; additionally returns why a build returned False."""
    name = name or os.path.join(MEM_DIR, "main.flo")
    cap = _Capture(building.console)
    old_console = building.console
    old_builder = building.Builder
    building.console = cap
    if metas:
        ms, ps = skedder_metas(plan=os.path.basename(name))
        building.Builder = functools.partial(old_builder, metas=ms, preloads=ps)
    # keep the collector out of the guarded build: finalisers of earlier builds' framer runners would
    # otherwise run (and swallow a Watchdog) at arbitrary points inside it
    gc.disable()
    try:
        res = real.build_text(text, extra_files=extra_files, limit=limit, name=name, **_NO_RETRY)
    finally:
        building.console = old_console
        building.Builder = old_builder
        gc.enable()
    _BUILDS[0] += 1
    if _BUILDS[0] % 25 == 0:
        gc.collect()
    reason = ""
    if res.kind == "false":
        for m in reversed(cap.msgs):
            if "Error" in m:
                reason = m.strip()
                break
        else:
            reason = cap.msgs[-1].strip() if cap.msgs else ""
    _close_servers(res)
    return Built(res, reason)


def _close_servers(res):
    for h in res.houses or []:
        for t in h.taskers:
            if isinstance(t, serving.Server):
                try:
                    t.server.close()
                except Exception:
                    pass


# ----------------------------------------------------------------------------- dumps

def dump_full(house):
    d = real.dump_house(house)
    extra = []
    for t in house.taskers:
        if isinstance(t, iologging.Logger):
            extra.append([t.name, [[lg.name, getattr(lg, "baseFilename", None), getattr(lg, "kind", None),
                                    getattr(lg, "rule", None)] for lg in t.logs]])
    d["logfiles"] = extra
    return d


def _strip_human(o):
    if isinstance(o, dict):
        return {k: _strip_human(v) for k, v in o.items() if k != "human"}
    if isinstance(o, list):
        if len(o) == 2 and o[0] == "human" and isinstance(o[1], str):
            return ["human", ""]
        return [_strip_human(v) for v in o]
    return o


def dumps(built, drop_human=False):
    """Canonical string of everything that was built (all houses)."""
    d = [dump_full(h) for h in built.houses]
    if drop_human:
        d = _strip_human(d)
    return json.dumps(d, sort_keys=True, default=repr)


_LINE_RE = re.compile(r"(at line|line) \d+")


def failure_sig(built, strip_lines=False):
    """Comparable description of a failed build: kind + message (no token list / index)."""
    if built.ok:
        return "ok"
    if built.kind == "false":
        msg = built.reason
    elif isinstance(built.exc, (excepting.ParseError, excepting.ResolveError)):
        msg = str(built.exc.message)
    else:
        msg = str(built.exc)
    if strip_lines:
        msg = _LINE_RE.sub(r"\1 N", msg)
    return "%s: %s" % (built.kind, msg)


# ----------------------------------------------------------------------------- C14 oracle

EXCEPTING = tuple(v for v in vars(excepting).values()
                  if isinstance(v, type) and issubclass(v, Exception) and v.__module__ == excepting.__name__)

_Q1 = re.compile(r"'[^']*'")
_Q2 = re.compile(r'"[^"]*"')
_NUM = re.compile(r"\d+")


def normalise_message(msg):
    msg = _Q1.sub("'_'", msg)
    msg = _Q2.sub('"_"', msg)
    msg = _NUM.sub("N", msg)
    return msg[:120]


def innermost_ioflo(tb):
    """(basename, function, source line) of the innermost traceback frame inside ioflo."""
    root = os.path.join(core.REPO, "ioflo") + os.sep
    for fs in reversed(tb or []):
        if fs.filename.startswith(root):
            return os.path.basename(fs.filename), fs.name, (fs.line or "").strip()
    return "?", "?", ""


# ----------------------------------------------------------------------------- plans

def load_plans():
    out = odict()
    for p in sorted(glob.glob(os.path.join(PLAN_DIR, "*.flo"))):
        with open(p) as f:
            out[os.path.basename(p)] = f.read()
    return out


FRAGMENT_PLANS = ("gps.flo",)        # only meaningful when `load`ed by box5/box6
META_PLANS = ("testServer.flo",)     # reads .meta.* shares a Skedder would preload


def build_plan(plans, name, text=None, limit=10.0):
    """Build example plan `name` (or `text` standing in for it) with the other plans loadable."""
    return build(plans[name] if text is None else text, extra_files=plans, limit=limit,
                 name=os.path.join(PLAN_DIR, name), metas=name in META_PLANS)


# ----------------------------------------------------------------------------- tokens

def tokenize_line(line):
    """(indent, tokens, comment) of one physical line the way Builder.tokenize chunks it."""
    body = line.rstrip("\n")
    stripped = body.strip()
    indent = body[:len(body) - len(body.lstrip())]
    toks, comment = [], ""
    for ch in REO_Chunks.findall(stripped):
        if ch[0] == "#":
            comment = ch
            break
        toks.append(ch)
    return indent, toks, comment


def join_tokens(indent, toks, comment=""):
    s = indent + " ".join(toks)
    if comment:
        s += ("  " if toks else "") + comment
    return s


# ----------------------------------------------------------------------------- C15 families
#
# family = dict(verb, pre, head, clauses=[(key, text)...], tail, post)
#   script = pre + "\n" + indent + head + " " + " ".join(clause texts in the chosen order) + tail + "\n" + post

_DO_PRE = """house h
init .src.parm with pf 7
init .src.io with iof ".dst.iof"
init .src.init with nf 3
framer f be active first a
frame a
"""

_F = []


def _fam(name, verb, pre, head, clauses, tail="", post=""):
    _F.append(dict(name=name, verb=verb, pre=pre, head=head, clauses=clauses, tail=tail, post=post))


_fam("do", "do", _DO_PRE, "  do vprobe", [
    ("as", "as my name"),
    ("at", "at enter"),
    ("via", "via .my.node"),
    ("with", 'with pa 1 pb "two"'),
    ("from", "from pf in .src.parm"),
    ("per", "per ia .dst.ia"),
    ("for", "for iof in .src.io"),
    ("cum", "cum na 5"),
    ("qua", "qua nf in .src.init"),
])
_fam("do/v2", "do", _DO_PRE, "  do vprobe", [
    ("as", "as single"),
    ("at", "at exit"),
    ("via", "via stuff of framer"),
    ("with", "with 5"),
    ("from", "from .src.parm"),
    ("per", "per ia .dst.ia ib .dst.ib"),
    ("for", "for .src.io"),
    ("cum", "cum na 5 nb 6"),
    ("qua", "qua .src.init"),
])
# collision family: clauses that set the SAME key - `via` vs an explicit `inode` field in `per`, `as` vs an explicit
# `name` field in `cum` / `qua`, `with` vs `from`, `per` vs `for`, `cum` vs `qua`.  The documented precedences (via over
# per/for, as over cum/qua, with over from, per over for, cum over qua) are by clause kind, never by position.
_DO_COLLIDE_PRE = """house h
init .src.c with pa 9
init .src.cio with color ".dst.other"
init .src.cinit with name "third" nz 7
framer f be active first a
frame a
"""
_fam("do/collide", "do", _DO_COLLIDE_PRE, "  do vprobe", [
    ("as", "as first mate"),
    ("via", "via .zone"),
    ("with", "with pa 1"),
    ("from", "from pa in .src.c"),
    ("per", "per inode .other color .dst.red"),
    ("for", "for color in .src.cio"),
    ("cum", "cum name second nz 5"),
    ("qua", "qua name nz in .src.cinit"),
])
_fam("framer", "framer", "house h\n", "framer f", [
    ("be", "be active"),
    ("at", "at 0.5"),
    ("first", "first b"),
    ("via", "via .f.node"),
    ("in", "in front"),
], post="frame a\nframe b\n")
_fam("framer/v2", "framer", "house h\n", "framer f", [
    ("be", "be inactive"),
    ("at", "at 2"),
    ("first", "first b"),
    ("via", "via stuff of framer"),
    ("in", "in back"),
], post="frame a\nframe b\n")
# roster families: every schedule x every order, so that the list a tasker lands in (house.fronts / mids /
# backs / taskables / slaves / auxes / moots, all part of the dump) cannot depend on the clause order
for _be in ("active", "inactive", "aux", "slave", "moot"):
    for _ord in ("front", "mid", "back"):
        if (_be, _ord) in (("active", "front"), ("inactive", "back")):
            continue        # already the two families above
        _fam("framer/%s-%s" % (_be, _ord), "framer", "house h\n", "framer f", [
            ("be", "be " + _be),
            ("at", "at 0.5"),
            ("first", "first b"),
            ("via", "via .f.node"),
            ("in", "in " + _ord),
        ], post="frame a\nframe b\n")
for _be in ("active", "inactive", "slave"):
    for _ord in ("front", "mid", "back"):
        _fam("logger/%s-%s" % (_be, _ord), "logger", "house h\n", "logger lg", [
            ("to", "to /tmp/verif-nolog"),
            ("at", "at 0.25"),
            ("be", "be " + _be),
            ("in", "in " + _ord),
        ], post="  log one\n    loggee .a.b\nframer f be active\nframe a\n")
        _fam("server/%s-%s" % (_be, _ord), "server", "house h\n", "server s", [
            ("at", "at 0.5"),
            ("be", "be " + _be),
            ("in", "in " + _ord),
            ("to", "to /tmp/verif-nosrv"),
        ], post="framer f be active\nframe a\n")
_fam("frame", "frame", "house h\nframer f be active\nframe a\n", "frame b", [
    ("in", "in a"),
    ("via", "via .fr.node"),
])
_fam("frame/v2", "frame", "house h\nframer f be active\nframe a\n", "frame b", [
    ("in", "in a"),
    ("via", "via stuff of frame"),
])
_LOGGER_CL = [
    ("to", "to /tmp/verif-nolog"),
    ("at", "at 0.25"),
    ("be", "be inactive"),
    ("in", "in back"),
    ("flush", "flush 2"),
    ("keep", "keep 3"),
    ("cycle", "cycle 10"),
    ("size", "size 100"),
    ("reuse", "reuse"),
]
_fam("logger", "logger", "house h\n", "logger lg", _LOGGER_CL,
     post="  log one\n    loggee .a.b\nframer f be active\nframe a\n")
# rotation families: `cycle 0` / `size 0` are legal explicit values and must not be mistaken for "not given"
_fam("logger/rotate", "logger", "house h\n", "logger lg", [
    ("keep", "keep 2"),
    ("cycle", "cycle 0"),
    ("size", "size 0"),
    ("flush", "flush 5"),
    ("reuse", "reuse"),
], post="  log one\n    loggee .a.b\nframer f be active\nframe a\n")
_fam("logger/rotate2", "logger", "house h\n", "logger lg", [
    ("keep", "keep 3"),
    ("cycle", "cycle 0.0"),
    ("size", "size 100"),
    ("flush", "flush 0"),
    ("at", "at 0.5"),
], post="  log one\n    loggee .a.b\nframer f be active\nframe a\n")
_fam("logger/rotate3", "logger", "house h\n", "logger lg", [
    ("keep", "keep 1"),
    ("cycle", "cycle 30"),
    ("to", "to /tmp/verif-nolog"),
    ("be", "be inactive"),
    ("in", "in back"),
], post="  log one\n    loggee .a.b\nframer f be active\nframe a\n")
_fam("log", "log", "house h\nlogger lg\n", "  log one", [
    ("to", "to fone"),
    ("as", "as binary"),
    ("on", "on update"),
], post="    loggee .a.b\nframer f be active\nframe a\n")
# a later log naming the file an earlier log of the same logger already writes: whatever the duplicate rule is, it
# must give the same outcome for every order of the later command's clauses
for _ek in ("text", "binary"):
    for _lk in ("binary", "text"):
        _fam("log/dup-%s-%s" % (_ek, _lk), "log",
             "house h\nlogger lg\n  log first to shared as %s\n    loggee .a.b\n" % _ek, "  log two", [
                 ("to", "to shared"),
                 ("as", "as " + _lk),
                 ("on", "on update"),
             ], post="    loggee .c.d\nframer f be active\nframe a\n")
_SERVER_PRE = "house h\ninit .srv.src with gamma 3\n"
# `per` and `for` both feed the server's init data: here they carry keys the server really uses (period, prefix),
# so losing either clause's data shows in the dumped tasker (no at / to clause: those would set the same keys;
# no rx / tx: `per` before rx/tx is the recorded parseDirect finding of the server families below)
_SERVER_CFG = "house h\ninit .cfg.logs with prefix \"/tmp/verif-nosrv/cfg\"\ninit .cfg.t with period 0.75\n"
_fam("server/cfg", "server", _SERVER_CFG, "server s", [
    ("be", "be inactive"),
    ("in", "in front"),
    ("per", "per period 0.5"),
    ("for", "for prefix in .cfg.logs"),
], post="framer f be active\nframe a\n")
_fam("server/cfg2", "server", _SERVER_CFG, "server s", [
    ("be", "be active"),
    ("in", "in back"),
    ("per", 'per prefix "/tmp/verif-nosrv/direct" dha2 5'),
    ("for", "for period in .cfg.t"),
], post="framer f be active\nframe a\n")
_fam("server", "server", _SERVER_PRE, "server s", [
    ("at", "at 0.5"),
    ("be", "be inactive"),
    ("rx", "rx localhost:5001"),
    ("tx", "tx localhost:5002"),
    ("in", "in front"),
    ("to", "to /tmp/verif-nosrv"),
    ("per", "per alpha 1 beta 2"),
    ("for", "for gamma in .srv.src"),
], post="framer f be active\nframe a\n")
_fam("server/v2", "server", _SERVER_PRE, "server s", [
    ("at", "at 2"),
    ("be", "be active"),
    ("rx", "rx :5001"),
    ("tx", "tx localhost"),
    ("in", "in back"),
    ("to", "to /tmp/verif-nosrv"),
    ("per", "per 7"),
    ("for", "for .srv.src"),
], post="framer f be active\nframe a\n")
_AUX_PRE = "house h\nframer orig be moot\nframe oa\nframer f be active first a\nframe a\n"
_fam("aux", "aux", _AUX_PRE, "  aux orig", [
    ("as", "as mine"),
    ("via", "via .aux.node"),
])
_fam("aux/named", "aux", _AUX_PRE, "  aux orig", [
    ("as", "as clony"),
    ("via", "via stuff of me"),
])
_fam("aux/if", "aux", "house h\nframer ax be aux\nframe x\nframer f be active first a\nframe a\n",
     "  aux ax", [
         ("as", "as mine"),
         ("via", "via .aux.node"),
     ], tail=" if .a.b")
_REAR_PRE = "house h\nframer orig be moot\nframe oa\nframer f be active first a\nframe a\n"
_fam("rear", "rear", _REAR_PRE, "  rear orig", [
    ("as", "as mine"),
    ("be", "be aux"),
    ("in", "in frame b"),
], post="frame b\n")
_fam("raze", "raze", _REAR_PRE, "  raze all", [
    ("in", "in frame b"),
], post="frame b\n")
_NEED_PRE = "house h\nframer f be active first a\nframe a\n"
for _kind in ("updated", "changed"):
    _fam("need/" + _kind, "go", _NEED_PRE, "  go next if .a.b is " + _kind, [
        ("in", "in frame b"),
        ("by", "by mk"),
    ], post="frame b\n")
    _fam("need/" + _kind + "/v2", "go", _NEED_PRE, "  go next if .a.b is " + _kind, [
        ("in", "in frame"),
        ("by", 'by "mk two"'),
    ], tail=" and .c.d", post="frame b\n")
    _fam("need/" + _kind + "/let", "let", _NEED_PRE + "frame b\n", "  let me if .a.b is " + _kind, [
        ("in", "in frame a"),
        ("by", "by mk"),
    ])

CLAUSE_FAMILIES = _F


def family_script(fam, order):
    """Script text and the command line for clause keys `order` (a sequence of keys)."""
    texts = dict(fam["clauses"])
    cmd = fam["head"]
    for k in order:
        cmd += " " + texts[k]
    cmd += fam["tail"]
    return fam["pre"] + cmd + "\n" + fam["post"], cmd.strip()


def family_subsets(fam, maxk):
    """All subsets (as key tuples in canonical order) of size <= maxk, smallest first."""
    keys = [k for k, _ in fam["clauses"]]
    for n in range(0, min(maxk, len(keys)) + 1):
        for sub in itertools.combinations(keys, n):
            yield sub


# ----------------------------------------------------------------------------- C14 input space

UTILITY_FILES = ("storing.py", "odicting.py", "osetting.py", "aiding.py", "registering.py", "classing.py",
                 "sixing.py", "consoling.py")


def responsible_ioflo(tb):
    """(basename, function, line) of the innermost ioflo frame that is not inside a low-level container /
    utility module (a KeyError raised by Share.__getitem__ is grouped under the function that indexed)."""
    root = os.path.join(core.REPO, "ioflo") + os.sep
    inner = None
    for fs in reversed(tb or []):
        if fs.filename.startswith(root):
            rec = (os.path.basename(fs.filename), fs.name, (fs.line or "").strip())
            if inner is None:
                inner = rec
            if rec[0] not in UTILITY_FILES:
                return rec
    return inner or ("?", "?", "")


_LOOPY = {}


def _has_loop(code):
    r = _LOOPY.get(code)
    if r is None:
        r = _LOOPY[code] = any(i.opname.startswith("JUMP_BACKWARD") or i.opname == "FOR_ITER"
                               for i in dis.get_instructions(code))
    return r


def hang_owner(exc):
    """(basename, function) of the innermost ioflo frame of an interrupted build whose code contains a loop:
    a stable name for the spinning loop wherever inside its body the interrupt landed."""
    owner = getattr(exc, "hang_owner", None)
    if owner:
        return owner
    root = os.path.join(core.REPO, "ioflo") + os.sep
    frames = []
    tb = exc.__traceback__ if exc is not None else None
    while tb is not None:
        frames.append(tb.tb_frame.f_code)
        tb = tb.tb_next
    inner = None
    for code in reversed(frames):
        if code.co_filename.startswith(root):
            if inner is None:
                inner = code
            if _has_loop(code):
                return os.path.basename(code.co_filename), code.co_name
    if inner is not None:
        return os.path.basename(inner.co_filename), inner.co_name
    return "?", "?"


def classify(built):
    """C14 oracle.  Returns (accepted, group, detail).
    accepted: ok, build returned False, ParseError, ResolveError, any other exception class defined in
    ioflo.base.excepting, ValueError raised inside a Convert2* converter, ValueError raised by an explicit
    `raise ValueError` statement in ioflo (deliberate report of a bad script value)."""
    k = built.kind
    if k in ("ok", "false"):
        return True, k, ""
    exc = built.exc
    if k == "Watchdog":
        base, func = hang_owner(exc)
        return False, "Watchdog|%s:%s|does not terminate" % (base, func), \
            "build did not terminate within the time limit (interrupted in %s:%s)" % (base, func)
    if isinstance(exc, EXCEPTING):
        return True, k, ""
    ibase, ifunc, iline = innermost_ioflo(built.tb)
    if type(exc) is ValueError:
        if ifunc.startswith("Convert2"):
            return True, "ValueError(Convert2)", ""
        if iline.startswith("raise ValueError"):
            return True, "ValueError(explicit raise)", ""
    base, func, line = responsible_ioflo(built.tb)
    group = "%s|%s:%s|%s" % (k, base, func, normalise_message(str(exc)))
    return False, group, "%s: %s (in %s:%s `%s`)" % (k, str(exc)[:160], base, func, line[:100])


SCAFFOLD = """house h
init .p.q with 3
init .p.r with x 1 y 2
init .p.io with y ".d.y"
@TOP
logger lg
@LOGGER
  log one on update
@LOG
    loggee .a.b
framer ax be aux first x
frame x
framer mt be moot
frame m
framer sl be slave
frame s
framer f be active
@FRAMER
frame a
@FRAME
frame b in a
frame c
  aux ax
"""
# the need-spelling family builds every line to completion and needs more furniture: enter actions in an earlier
# frame (e0), the slot's own frame (a) and later frames (b, c); a second aux framer (ay) used in a frame (s) that
# exists only in framer sl; a frame name (a) that exists in both f and sl
SCAFFOLD_RICH = """house h
init .p.q with 3
init .p.r with x 1 y 2
init .p.io with y ".d.y"
@TOP
logger lg
@LOGGER
  log one on update
@LOG
    loggee .a.b
framer ax be aux first x
frame x
framer ay be aux first y
frame y
framer mt be moot
frame m
framer sl be slave
frame s
  aux ay
frame a
framer f be active first a
@FRAMER
frame e0
  put 1 into .e.zero
frame a
  print entering a
@FRAME
frame b in a
  put 2 into .e.b
  bid stop me
frame c
  aux ax
  inc .e.c with 1
"""
SCAFFOLD_BARE = "house h\n@HOUSE\n"     # no logger / framer / frame context
SCAFFOLD_EMPTY = "@HOUSE\n"             # not even a house
LOADED = {"other.flo": "framer lo be aux\nframe l1\n  print loaded\n"}

SLOT_OF_VERB = dict(load="TOP", house="TOP", init="TOP", server="TOP", logger="TOP", framer="TOP",
                    log="LOGGER", loggee="LOG", first="FRAMER")


def scaffold(line, slot=None, rich=False):
    """Script with `line` at its verb's slot of the main scaffold (other slots empty)."""
    verb = line.split(" ", 1)[0] if line else ""
    slot = slot or SLOT_OF_VERB.get(verb, "FRAME")
    if slot == "HOUSE":
        return SCAFFOLD_BARE.replace("@HOUSE", line)
    if slot == "EMPTY":
        return SCAFFOLD_EMPTY.replace("@HOUSE", line)
    out = []
    for ln in (SCAFFOLD_RICH if rich else SCAFFOLD).split("\n"):
        if ln.startswith("@"):
            if ln[1:] == slot:
                out.append("  " + line)
                if verb == "framer" and slot == "TOP":
                    out.append("frame ga")
        else:
            out.append(ln)
    return "\n".join(out)


# token alphabet: every reserved word, representatives of every literal / name / path class, keywords
ALPHA_WORDS = [
    "zz", "a", "f", "ax", "lg", "me", "mine", "main",
    ".p.q", ".p.r", "p.q", "n.m.", ".n.", ".", "a..b", "_u", "9z", "framer.me.frame", "framer.me.actor",
    "5", "0", "-1", "2.5", "1j", "0x1f", "1e400", "nan",
    '"s t"', "'u'", '""', "true", "none", "10N30.5", "3x4y",
    "frame", "framer", "actor", "root", "all", "any", "aux", "done", "updated", "changed", "running",
    "elapsed", "recurred", "goal", "value", "enter", "active", "moot", "stop", "first", "next",
]
ALPHABET = CONNECTIVES + COMPARISONS + ALPHA_WORDS
# reduced alphabet (one representative per class) for the deeper enumerations
ALPHA_SMALL = ["to", "with", "from", "per", "via", "as", "at", "in", "of", "is", "if", "be", "into", "and", "not",
               "re", "+-", "by", "==", ">=",
               "zz", "a", "f", "ax", "me", ".p.q", "p.q", "n.m.", "5", "1j", '"s t"', "frame", "framer",
               "done", "updated", "running", "elapsed", "goal", "all", "aux"]
# tiny alphabet for the deepest enumerations (3 free tokens; 2 free tokens after every command prefix)
ALPHA_TINY = ["to", "with", "from", "as", "at", "in", "of", "is", "if", "into", "and", "not", "==", "+-",
              "zz", "a", ".p.q", "5", "1j", '"s t"', "frame", "me"]
VERB_EXTRA = dict(
    server=["rx", "tx", "host:1", "h:p", "a:b:c", "inactive", "slave", "front"],
    logger=["flush", "keep", "cycle", "size", "reuse", "inactive", "slave", "back"],
    log=["text", "binary", "update", "streak", "deck", "once"],
    loggee=["x", "y"],
    framer=["inactive", "slave", "front", "mid"],
    bid=["start", "run", "abort", "ready", "sl"],
    rear=["mt", "b"], raze=["last", "b"], aux=["mt", "cl"],
    go=["b", "started", "stopped", "x", "sl"], let=["started", "x"],
    do=["vprobe", "rec", "tag", "native", "recur", "exit", "x"],
    load=["other.flo", "main.flo", "/nonexistent/x.flo"],
    done=["sl"], ready=["sl"], start=["sl"], stop=["sl"], run=["sl"], abort=["sl"],
    init=["x", "y"], put=["x", "y"], inc=["x", "y"], copy=["x", "y"], set=["x", "y"],
)

# valid commands per verb (from the build* docstrings and the example plans), built inside SCAFFOLD
CORPUS = odict([
    ("load", ["load other.flo"]),
    ("house", ["house h2"]),
    ("init", ["init .i.a with 5", "init .i.b with x 1 y 2", "init .i.c from .p.q",
              "init x y in .i.d from x y in .p.r", "init value in .i.e from .p.q", "init .i.f to 5"]),
    ("server", ["server s", "server s rx localhost:5001 tx localhost:5002", "server s for y in .p.r",
                "server s per alpha 1", "server s at 0.5 be inactive rx localhost:5001 tx localhost:5002 in front to /tmp/verif-nosrv "
                "per alpha 1 for y in .p.r"]),
    ("logger", ["logger l2", "logger l2 keep 3", "logger l2 flush 2 size 100", "logger l2 to /tmp/verif-nolog at 0.25 be inactive in back flush 2 keep 3 cycle 10 size 100 reuse"]),
    ("log", ["log two to ftwo as binary on change", "log two on streak"]),
    ("loggee", ["loggee x y in .p.r as pr .p.q as pq", "loggee .p.q"]),
    ("framer", ["framer g", "framer g at 0.5", "framer g be active at 0.5 first ga via .g.node in front", "framer g be aux via stuff of me"]),
    ("first", ["first a"]),
    ("frame", ["frame z in a via .z.node", "frame z via stuff of me"]),
    ("over", ["over c"]),
    ("under", ["under b"]),
    ("next", ["next c", "next"]),
    ("done", ["done", "done me", "done ax", "done sl ax"]),
    ("timeout", ["timeout 5.0"]),
    ("repeat", ["repeat 2"]),
    ("native", ["native"]), ("benter", ["benter"]), ("enter", ["enter"]), ("recur", ["recur"]),
    ("exit", ["exit"]), ("precur", ["precur"]), ("renter", ["renter"]), ("rexit", ["rexit"]),
    ("print", ["print hello world"]),
    ("put", ["put 5 into .o.a", "put x 1 y 2 into .o.b", 'put "s" into value in o.c of me',
             "put 1 into x in o.d of frame a of framer f"]),
    ("inc", ["inc .o.a with 1", "inc .o.a from .p.q", "inc x in .o.b with x 2",
             "inc value in o.e of framer from value in .p.q"]),
    ("copy", ["copy .p.q into .o.f", "copy x y in .p.r into x y in .o.g", "copy p.q of root into o.h of actor"]),
    ("set", ["set elapsed with 3", "set recurred from .p.q", "set .o.i with 2", "set x in .o.j from x in .p.r",
             "set elapsed to 5", "set elapsed by .p.q"]),
    ("aux", ["aux ax", "aux mt as mine via .aux.node", "aux mt as cl via mine", "aux ax if .p.q",
             "aux ax if not .p.q == 3 and elapsed >= 2"]),
    ("rear", ["rear mt as mine be aux in frame b"]),
    ("raze", ["raze all in frame b", "raze first", "raze last in frame"]),
    ("go", ["go next", "go b", "go me if .p.q", "go c if .p.q == 3 +- 0.1", "go c if x in .p.r >= y in .p.r",
            "go c if elapsed >= 2", "go c if recurred re me >= goal", "go c if elapsed re f == 1.5 +- 0.1",
            "go c if ax is done", "go c if aux ax in frame c in framer f is done", "go c if any in frame is done",
            "go c if all is done", "go c if f is running", "go c if lg is stopped",
            "go c if .p.q is updated in frame b by mk", "go c if p.q of framer f is changed",
            'go c if not .p.q and .o.a != "str"', "go c if .p.q == .o.a", "go c if elapsed >= x in .p.r"]),
    ("let", ["let me if .p.q", "let if not .p.q == 3", "let me if f is started"]),
    ("do", ["do vprobe as my name at enter via .my.node with pa 1 from x in .p.r per ia .d.ia for y in .p.io "
            "cum na 5 qua x in .p.r", 'do rec with tag "t"']),
    ("bid", ["bid stop me", "bid start f", "bid run f at 0.5", "bid stop all", "bid ready f at value in .p.q",
             "bid abort f lg"]),
    ("ready", ["ready sl"]), ("start", ["start sl"]), ("stop", ["stop sl"]), ("run", ["run sl"]),
    ("abort", ["abort sl"]),
    ("use", ["use x"]), ("flo", ["flo x"]), ("take", ["take x"]), ("give", ["give x"]),
])


def alphabet_for(verb, small=False):
    base = ALPHA_TINY if small == "tiny" else ALPHA_SMALL if small else ALPHABET
    out = list(base)
    for t in VERB_EXTRA.get(verb, []):
        if t not in out:
            out.append(t)
    return out


def gen_bare(verb, depth, small=False, exact=False):
    """verb followed by every token sequence of length <= depth (== depth when exact)."""
    al = alphabet_for(verb, small)
    for n in range(depth if exact else 0, depth + 1):
        for seq in itertools.product(al, repeat=n):
            yield " ".join((verb,) + seq)


def gen_mutations(cmd, small=False):
    """Every single-token delete / replace / insert of a valid command (verb kept)."""
    toks = tokenize_line(cmd)[1]
    verb = toks[0]
    al = alphabet_for(verb, small)
    for i in range(1, len(toks)):
        yield " ".join(toks[:i] + toks[i + 1:])
    for i in range(1, len(toks)):
        for t in al:
            if t != toks[i]:
                yield " ".join(toks[:i] + [t] + toks[i + 1:])
    for i in range(1, len(toks) + 1):
        for t in al:
            yield " ".join(toks[:i] + [t] + toks[i:])


def gen_prefixes(cmd, depth, small=False):
    """Every proper prefix of a valid command followed by every token sequence of length <= depth."""
    toks = tokenize_line(cmd)[1]
    verb = toks[0]
    al = alphabet_for(verb, small)
    for cut in range(1, len(toks)):
        pre = toks[:cut]
        for n in range(depth + 1):
            for seq in itertools.product(al, repeat=n):
                yield " ".join(pre + list(seq))


def gen_plan_mutations(text, alphabet):
    """Every single-token delete / duplicate / replace-by-alphabet-token of every line of a plan.
    Yields (lineno, tokenindex, op, mutated_text, mutated_line)."""
    lines = text.split("\n")
    for li, line in enumerate(lines):
        indent, toks, comment = tokenize_line(line)
        if not toks:
            continue
        for ti in range(len(toks)):
            variants = [("del", toks[:ti] + toks[ti + 1:]), ("dup", toks[:ti + 1] + toks[ti:])]
            for t in alphabet:
                if t != toks[ti]:
                    variants.append(("rep:" + t, toks[:ti] + [t] + toks[ti + 1:]))
            for op, nt in variants:
                ml = join_tokens(indent, nt, comment)
                yield li + 1, ti, op, "\n".join(lines[:li] + [ml] + lines[li + 1:]), ml.strip()


FRAME_NAMES = ["a", "b", "c", "d"]


def gen_link_graphs(n, max_unders=None):
    """Every assignment of `in X` / `under Y` (X, Y in none, each frame incl. itself, dangling 'zz') over n
    frames, with at most max_unders frames carrying an `under` (None: no limit).  Yields (label, script)."""
    names = FRAME_NAMES[:n]
    targets = [None] + names + ["zz"]
    for overs in itertools.product(targets, repeat=n):
        for unders in itertools.product(targets, repeat=n):
            if max_unders is not None and sum(1 for u in unders if u) > max_unders:
                continue
            lines = ["house h", "framer f be active first a"]
            label = []
            for nm, ov, un in zip(names, overs, unders):
                ln = "frame " + nm + (" in " + ov if ov else "")
                lines.append(ln)
                lab = ln
                if un:
                    lines.append("  under " + un)
                    lab += " [under %s]" % un
                label.append(lab)
            yield " / ".join(label), "\n".join(lines) + "\n"


def gen_first_next_graphs(n):
    """first in {frames, zz} x each frame's `next` in {none, frames, next-less 'next', zz} (flat frames)."""
    names = FRAME_NAMES[:n]
    for first in names + ["zz"]:
        for nexts in itertools.product([None, ""] + names + ["zz"], repeat=n):
            lines = ["house h", "framer f be active first " + first]
            label = ["first " + first]
            for nm, nx in zip(names, nexts):
                lines.append("frame " + nm)
                lab = "frame " + nm
                if nx is not None:
                    lines.append(("  next " + nx).rstrip())
                    lab += " [next %s]" % nx
                lines.append("  go next")
                label.append(lab)
            yield " / ".join(label), "\n".join(lines) + "\n"


# ----------------------------------------------------------------------------- robust process map

def _call(args):
    fn, item = args
    try:
        return ("ok", fn(item))
    except core.BrokenCheck as ex:
        return ("broken", "%s\n%s" % (ex, traceback.format_exc()))
    except core.Watchdog as ex:
        return ("broken", "watchdog outside a guarded build: %s\n%s" % (ex, traceback.format_exc()))
    except Exception as ex:
        return ("broken", "%r\n%s" % (ex, traceback.format_exc()))


def pmap(fn, items, procs=None):
    """Like core.pmap (ordered results, forked workers) but a worker that dies (killed, segfault) turns into
    BrokenCheck instead of blocking the parent forever as multiprocessing.Pool does."""
    import concurrent.futures as cf
    import multiprocessing
    items = list(items)
    procs = procs or core.NPROC
    if procs <= 1 or len(items) <= 1:
        return [fn(it) for it in items]
    ctx = multiprocessing.get_context("fork")
    out = []
    with cf.ProcessPoolExecutor(max_workers=min(procs, len(items)), mp_context=ctx) as ex:
        try:
            for tag, val in ex.map(_call, [(fn, it) for it in items]):
                if tag != "ok":
                    raise core.BrokenCheck("worker failed: " + val)
                out.append(val)
        except cf.process.BrokenProcessPool as e:
            raise core.BrokenCheck("a worker process died (killed from outside or crashed): %s" % e)
    return out


# ----------------------------------------------------------------------------- C16 layout

def parse_commands(text):
    """Logical commands of a script the way Builder.tokenize / Builder.build group physical lines:
    backslash-newline joins lines, a line whose first token is a reserved word continues the previous
    command (not after `load`), blank / comment-only lines are skipped.  -> [dict(indent, tokens)]"""
    phys = text.split("\n")
    if phys and phys[-1] == "":
        phys.pop()
        ends = [True] * len(phys)
    else:
        ends = [True] * (len(phys) - 1) + [False]     # last line has no newline
    logical = []
    i = 0
    while i < len(phys):
        line = phys[i]
        indent = line[:len(line) - len(line.lstrip())]
        parts = []
        while line.endswith("\\") and ends[i]:
            parts.append(line.rstrip().rstrip("\\").strip())
            i += 1
            line = phys[i] if i < len(phys) else ""
        parts.append(line.rstrip())
        i += 1
        toks = tokenize_line(" ".join(parts))[1]
        if toks:
            logical.append((indent, toks))
    cmds = []
    for indent, toks in logical:
        if cmds and toks[0] in RESERVED and cmds[-1]["tokens"][0] != "load":
            cmds[-1]["tokens"].extend(toks)
        else:
            cmds.append(dict(indent=indent, tokens=list(toks)))
    return cmds


def render(cmds, styles=None):
    """Text for `cmds`; styles[i] may hold indent, comment, pre (list of raw lines put before the command),
    breaks ({token position: 'bs' | 'conn'}), seg_comments (comment after every connective-continued piece)."""
    out = []
    for i, c in enumerate(cmds):
        st = (styles or {}).get(i, {})
        indent = st.get("indent", c["indent"])
        out.extend(st.get("pre", []))
        toks = c["tokens"]
        breaks = st.get("breaks", {})
        line = indent + toks[0]
        for p in range(1, len(toks)):
            kind = breaks.get(p)
            if kind == "bs":
                out.append(line + " \\")
                line = st.get("cont_indent", indent + "    ") + toks[p]
            elif kind == "conn":
                if st.get("seg_comments"):
                    line += "  " + st["seg_comments"]
                out.append(line)
                out.extend(st.get("gaps", {}).get(p, []))     # blank / comment lines before this continuation line
                line = indent + "  " + toks[p]
            else:
                line += " " + toks[p]
        if st.get("comment"):
            line += "  " + st["comment"]
        out.append(line)
    return "\n".join(out) + "\n"


INDENTS = ["", "  ", "       ", "\t"]
COMMENTS = ["# note", "# it's a \"quoted\" 'remark' with to from if"]
PRELINES = ["", "# comment line", "     # indented \"comment"]
GAPLINES = ["", "   ", "# note between continuation lines", "      # indented note"]


def conn_positions(toks):
    if toks[0] == "load":
        return []
    return [p for p in range(1, len(toks)) if toks[p] in RESERVED]


def single_edits(cmds):
    """Every single layout edit at every position.  Yields (label, styles)."""
    for i, c in enumerate(cmds):
        toks = c["tokens"]
        head = "cmd %d `%s`" % (i, " ".join(toks)[:60])
        for ind in INDENTS:
            if ind != c["indent"]:
                yield "%s: indent %r" % (head, ind), {i: dict(indent=ind)}
        for cm in COMMENTS:
            yield "%s: trailing comment %r" % (head, cm), {i: dict(comment=cm)}
        for pl in PRELINES:
            yield "%s: line %r inserted before" % (head, pl), {i: dict(pre=[pl])}
        for p in range(1, len(toks)):
            yield "%s: backslash before token %d" % (head, p), {i: dict(breaks={p: "bs"})}
        if len(toks) > 1:   # a genuine trailing comment on the last line of a backslash-continued command
            for cm in COMMENTS:
                yield "%s: backslash before token %d and trailing comment %r" % (head, len(toks) - 1, cm), \
                    {i: dict(breaks={len(toks) - 1: "bs"}, comment=cm)}
        for p in range(1, len(toks)):
            yield "%s: backslash+tab-indented continuation before token %d" % (head, p), \
                {i: dict(breaks={p: "bs"}, cont_indent="\t")}
        conns = conn_positions(toks)
        for p in conns:
            yield "%s: newline before connective %d `%s`" % (head, p, toks[p]), {i: dict(breaks={p: "conn"})}
        if len(conns) >= 2:   # spread over several continuation lines, one filler line before one of them
            for p in conns:
                for fl in GAPLINES:
                    yield "%s: continuation lines at every connective, filler %r before connective %d `%s`" % (
                        head, fl, p, toks[p]), {i: dict(breaks={q: "conn" for q in conns}, gaps={p: [fl]})}
    if cmds:
        yield "blank line appended at end", {len(cmds) - 1: dict(post=True)}


def all_at_once(cmds):
    """The all-at-once variant of each kind, plus everything combined.  Yields (label, styles)."""
    n = len(cmds)
    yield "normalised: one command per line", {}
    for ind in INDENTS:
        yield "all: indent %r" % ind, {i: dict(indent=ind) for i in range(n)}
    for cm in COMMENTS:
        yield "all: trailing comment %r" % cm, {i: dict(comment=cm) for i in range(n)}
    yield "all: blank and comment lines before every command", {i: dict(pre=list(PRELINES)) for i in range(n)}
    yield "all: backslash at every token boundary", \
        {i: dict(breaks={p: "bs" for p in range(1, len(c["tokens"]))}) for i, c in enumerate(cmds)}
    yield "all: backslash+tab-indented continuation at every token boundary", \
        {i: dict(breaks={p: "bs" for p in range(1, len(c["tokens"]))}, cont_indent="\t") for i, c in enumerate(cmds)}
    yield "all: newline before every connective", \
        {i: dict(breaks={p: "conn" for p in conn_positions(c["tokens"])}) for i, c in enumerate(cmds)}
    yield "all: continuation lines at every connective with filler lines between them", \
        {i: dict(breaks={p: "conn" for p in conn_positions(c["tokens"])},
                 gaps={p: list(GAPLINES) for p in conn_positions(c["tokens"])}) for i, c in enumerate(cmds)}
    comb = {}
    for i, c in enumerate(cmds):
        br = {}
        conns = set(conn_positions(c["tokens"]))
        for p in range(1, len(c["tokens"])):
            br[p] = "conn" if p in conns else ("bs" if p % 2 else None)
        comb[i] = dict(indent=INDENTS[(i % 3) + 1] if c["tokens"][0] != "house" else "", comment=COMMENTS[i % 2],
                       pre=[PRELINES[i % 3]], breaks={p: k for p, k in br.items() if k},
                       seg_comments=COMMENTS[(i + 1) % 2])
    yield "all: every kind combined", comb


def render_variant(cmds, styles):
    post = any(isinstance(v, dict) and v.get("post") for v in styles.values())
    text = render(cmds, styles)
    if post:
        text += "\n   \n# trailing comment line\n"
    return text


RUNNABLE = odict([
    ("flat", """house h
init .p.count with 0
framer main be active first start
  frame start
    do rec with tag "start" at enter
    do rec with tag "start-r"
    inc .p.count with 1
    go next if elapsed >= 0.25
  frame mid
    do rec with tag "mid" at enter
    aux helper
    go done if .p.count >= 3
    go start if elapsed >= 0.25
  frame done
    do rec with tag "done" at enter
    bid stop me
framer helper be aux first h1
  frame h1
    do rec with tag "h1" at enter
    go h2
  frame h2
    do rec with tag "h2" at enter
    do rec with tag "h2-x" at exit
"""),
    ("nested", """house h
init .q.level with value 1
init .q.pt with x 1 y 2
framer top be active first leaf1 at 0.125
  frame upper
    do rec with tag "upper" at enter
    do rec with tag "upper-x" at exit
    put 5 into .q.five
    go leaf3 if .q.level >= 4
  frame leaf1 in upper
    do rec with tag "leaf1" at enter
    timeout 0.25
  frame leaf2 in upper
    let me if .q.five == 5 +- 0.5
    do rec with tag "leaf2" at enter
    inc .q.level with 1
    copy x in .q.pt into y in .q.pt
    set elapsed with 0.375
    repeat 2
  frame leaf3
    do rec with tag "leaf3" at enter
    go leaf1 if elapsed >= goal
    go leaf1 if .q.level is updated in frame leaf2 by mark
framer side be inactive first s1
  frame s1
    do rec with tag "s1"
    print side is running
"""),
])


def corpus_program():
    """One program holding as many corpus commands as build together (greedy, deterministic): gives the
    layout checks every verb and clause form.  Returns the script text."""
    slots = odict((k, []) for k in ("TOP", "LOGGER", "LOG", "FRAMER", "FRAME"))

    def text():
        out = []
        for ln in SCAFFOLD.split("\n"):
            if ln.startswith("@"):
                out.extend(slots[ln[1:]])
            else:
                out.append(ln)
        return "\n".join(out)

    for verb, cmds in CORPUS.items():
        if verb in ("load", "house"):
            continue
        slot = SLOT_OF_VERB.get(verb, "FRAME")
        for k, c in enumerate(cmds):
            if verb == "framer":        # distinct framer names, so that every framer form (via, in, at ...) gets in
                c = c.replace("framer g", "framer g%d" % k, 1)
            add = ["  " + c] + (["frame ga"] if verb == "framer" else [])
            slots[slot].extend(add)
            if not build(text(), extra_files=LOADED, limit=10.0).ok:
                del slots[slot][-len(add):]
    return text()


MOOT_NAMES = ["m1", "m2", "m3", "m4"]
CLONE_EDGES = ("mine", "tag", "rear")


def gen_clone_graphs(n, kinds=("mine", "tag"), roots=("first", "all")):
    """Every directed graph of clone edges over n moot framers (self-loops and cycles included): each ordered
    pair (Mi, Mj) carries no edge or one edge of `kinds` - `aux Mj as mine`, `aux Mj as <tag>` or
    `rear Mj as mine be aux in frame b` written in frame a of Mi - reached from one active framer that clones
    the first moot (`first`) or every moot (`all`).  Yields (label, script)."""
    names = MOOT_NAMES[:n]
    opts = (None,) + tuple(kinds)
    for root in roots:
        targets = names[:1] if root == "first" else names
        for edges in itertools.product(opts, repeat=n * n):
            lines = ["house h", "framer root be active first r0", "frame r0"]
            lines += ["  aux %s as mine" % t for t in targets]
            label = ["root->" + ",".join(targets)]
            for i, mi in enumerate(names):
                lines += ["framer %s be moot first a" % mi, "frame a"]
                lab = []
                for j, mj in enumerate(names):
                    e = edges[i * n + j]
                    if e == "mine":
                        lines.append("  aux %s as mine" % mj)
                    elif e == "tag":
                        lines.append("  aux %s as c%d%d" % (mj, i + 1, j + 1))
                    elif e == "rear":
                        lines.append("  rear %s as mine be aux in frame b" % mj)
                    if e:
                        lab.append("%s %s" % (e, mj))
                lines.append("frame b")
                label.append("%s: %s" % (mi, ", ".join(lab) if lab else "-"))
            yield " | ".join(label), "\n".join(lines) + "\n"


# ----------------------------------------------------------------------------- C14 need spellings

def gen_need_spellings():
    """Every spelling of a need the makeDoneNeed / makeStatusNeed / makeMarkerNeed / makeFramerNeed / makeNeed
    docstrings allow - every optional part present and absent - with valid and dangling names of the
    C14 scaffold (framer f with frames a, b in a, c holding aux ax; aux ax, moot mt, slave sl, logger lg).
    Yields (kind, need text) without duplicates."""
    seen = set()

    def emit(kind, parts):
        text = " ".join(p for p in parts if p)
        if text not in seen:
            seen.add(text)
            return [(kind, text)]
        return []

    # done: taskername is done | (aux A | any | all | A) [in frame [me|F]] [in framer [me|R]] is done
    # frames c (aux ax), a, e0 belong to framer f (which holds the need); frame s (aux ay) exists ONLY in framer sl,
    # frame x only in framer ax, frame a in both f and sl
    for subj in ("ax", "ay", "sl", "zz", "me", "aux ax", "aux ay", "aux zz", "any", "all"):
        for fr in ("", "in frame", "in frame me", "in frame c", "in frame a", "in frame s", "in frame x",
                   "in frame zz"):
            for fm in ("", "in framer", "in framer me", "in framer f", "in framer sl", "in framer ax",
                       "in framer zz"):
                yield from emit("done", [subj, fr, fm, "is done"])
    # status: taskername is (readied, started, running, stopped, aborted)
    for t in ("f", "sl", "lg", "ax", "me", "zz"):
        for st in ("readied", "started", "running", "stopped", "aborted"):
            yield from emit("status", [t, "is", st])
    # marker: path [of relation] is (updated|changed) [in frame [me|F]] [by marker]  (clauses in both orders)
    for path in (".p.q", "p.q", "p.q of me", "p.q of framer f", "p.q of frame a", "p.q of frame zz", ".n.o"):
        for part in ("updated", "changed"):
            # an earlier frame (e0), the frame itself, later frames (b, c) - all with enter actions - and a dangling one
            for fr in ("", "in frame", "in frame me", "in frame a", "in frame e0", "in frame b", "in frame c",
                       "in frame zz"):
                for by in ("", "by mk", 'by "m k"'):
                    yield from emit("marker", [path, "is", part, fr, by])
                    if fr and by:
                        yield from emit("marker", [path, "is", part, by, fr])
    # framer state: (elapsed|recurred) [re [me|name]] comparison goal [+- tolerance]
    goals = ("2", "2.5", "goal", ".p.q", "x in .p.r", "p.q of me", '"str"', "true", "zz in .p.r", ".n.o")
    for state in ("elapsed", "recurred"):
        for re_ in ("", "re", "re me", "re f", "re ax", "re zz"):
            for cmp_ in ("==", ">=", "<", "!="):
                for goal in goals:
                    for tol in ("", "+- 0.1", "+- zz"):
                        if tol == "+- zz" and (cmp_ != "==" or goal not in ("2", "goal")):
                            continue
                        yield from emit("framer", [state, re_, cmp_, goal, tol])
    # basic: [field in] path [comparison goal [+- tolerance]]
    for state in (".p.q", "x in .p.r", "value in p.q of me", "zz in .p.r", ".n.o", "q of frame a", "x y in .p.r"):
        yield from emit("basic", [state])
        for cmp_ in ("==", ">=", "<", "!="):
            for goal in ("3", '"s"', "true", ".o.a", "y in .p.r", "zz in .p.r", "p.q of framer f", ".n.o"):
                for tol in ("", "+- 0.1"):
                    yield from emit("basic", [state, cmp_, goal, tol])


NEED_PARTNERS = (".p.q", "ax in frame c is done", ".p.q is updated in frame b")


def gen_need_lines():
    """The need spellings in every context: under go / let / aux-if, alone, negated, and as either side of a
    2-clause conjunction with each of a few fixed partner needs (and negated there).  Yields (kind, line)."""
    for kind, need in gen_need_spellings():
        for head in ("go c if", "let me if", "aux ax if"):
            yield kind, "%s %s" % (head, need)
            yield kind, "%s not %s" % (head, need)
        for partner in NEED_PARTNERS:
            yield kind, "go c if %s and %s" % (need, partner)
            yield kind, "go c if %s and %s" % (partner, need)
        yield kind, "go c if not %s and not .p.q" % need
        yield kind, "let me if .p.q and not %s" % need


# ----------------------------------------------------------------------------- C16 multi-file programs

# quoted strings holding what looks like layout syntax: ` #` after a blank, `#` first, single quotes, a backslash
# as the last character inside the quotes - the edits put line breaks and backslashes right next to them
RUNNABLE["quotes"] = """house h
init .q.note with "lap #0"
framer main be active first a
  frame a
    do rec with tag "a #1" at enter
    put "lap #1" into .q.note
    put "#start" into .q.first
    put 'single #2 quoted' into .q.single
    put "c:\\dir\\" into .q.path
    put "tail \\" into .q.tail
    print hello "quoted #3 text" world
    go b if .q.note == "lap #1" and .q.first == "#start"
  frame b
    do rec with tag "#b" at enter
    put "x # y" into .q.z
    copy .q.z into .q.w
"""

MULTI = odict([
    ("loadfrag", dict(parent="""house h
init .t.count with 0
framer main be active first setup
  frame setup
    do rec with tag "setup" at enter
    put 1 into .t.count
    load part.flo
    inc .t.count with 10
    go next if elapsed >= 0.25
  frame finish
    do rec with tag "finish" at enter
    put 99 into .t.finished
    bid stop me
""", fragname="part.flo", fragment="""    inc .t.count with 5
    do rec with tag "part" at enter
    put 7 into .t.extra
""", run=True)),
    ("loadfrag2", dict(parent="""house h
framer main be active first a
  frame a
    load part.flo
  frame b in a
    do rec with tag "b" at enter
    go next if .t.x == 3 +- 0.5
  frame c
    do rec with tag "c" at enter
""", fragname="part.flo", fragment="""    do rec with tag "a" at enter
    set .t.x with 3
    go b if elapsed >= 0.125 and .t.x >= 3
""", run=True)),
])


def fragment_variants(fragment):
    """Layouts of a `load`ed fragment: every single edit / all-at-once variant, each ending with a newline and
    without one - so that a continuation line (connective or backslash) is the very last line of the file.
    Yields (label, text)."""
    cmds = parse_commands(fragment)
    last = len(cmds) - 1
    vs = list(all_at_once(cmds)) + [(l, st) for l, st in single_edits(cmds) if not any(v.get("post") for v in st.values())]
    for label, styles in vs:
        text = render_variant(cmds, styles)
        for ending, what in (("\n", "newline at end of file"), ("", "no newline at end of file")):
            yield "fragment %s; %s" % (label, what), text.rstrip("\n") + ending
