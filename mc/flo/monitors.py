"""
Engine A: property monitors evaluated on the observation log of a *real* run.
Each monitor is written from the property statement and the program AST only (no ioflo code,
no reference interpreter), and returns a list of (group, detail) problems (empty = holds).

Snapshot tuple: (name, status, desire, done, active, actives, elapsed, recurred, main, ...)
Event tuple:    (framer, frame, ctx, tag)
Convention used by the families: every frame F carries recorders tagged "F.en" (enter) and
"F.ex" (exit); guards are `let` needs on env bits followed by a benter recorder "F.be".
"""
from mc.flo import lang

RUNNING = ("started", "running")


def fm_index(prog):
    return {fm["name"]: fm for fm in prog["framers"]}


class _CloneIndex(dict):
    def __init__(self, fms, moots):
        dict.__init__(self, fms)
        self.moots = moots

    def get(self, name, default=None):
        if name in self:
            return self[name]
        for mn, fm in self.moots.items():
            i = name.rfind("_" + mn)
            if i > 0 and name[i + 1 + len(mn):].isdigit():
                got = dict(fm)
                got["schedule"] = "aux"
                return got
        return default


def cond_aux_sites(prog):
    """[(framer, main frame, aux name)] for every `aux X if ...`."""
    out = []
    for fm in prog["framers"]:
        for fr in fm["frames"]:
            for it in fr["items"]:
                if it[0] == "auxif":
                    out.append((fm["name"], fr["name"], it[1]))
    return out


def plain_aux_sites(prog):
    out = []
    for fm in prog["framers"]:
        for fr in fm["frames"]:
            for it in fr["items"]:
                if it[0] == "aux":
                    out.append((fm["name"], fr["name"], it[1]))
    return out


def snap_by_name(snap):
    return {s[0]: s for s in snap["framers"]}


# ------------------------------------------------------------------------------- C05

def mon_outline(prog, rr):
    """After every framer run: a started/running framer's active frames are the chain top ->
    active -> primary unders to a leaf; cut at the main frame of a running conditional auxiliary;
    stopped/aborted framers have none."""
    probs = []
    fms = fm_index(prog)
    csites = cond_aux_sites(prog)
    for snap in rr.ticks:
        by = snap_by_name(snap)
        for s in snap["framers"]:
            name, status, desire, done, active, actives = s[0], s[1], s[2], s[3], s[4], tuple(s[5])
            fm = fms.get(name)
            if fm is None:
                continue
            sched = fm.get("schedule", "active")
            is_aux = sched in ("aux", "moot")
            running = (active is not None) if is_aux else (status in RUNNING)
            if not running:
                if actives or (active is not None and not is_aux):
                    probs.append(("inactive-framer-has-actives",
                                  "tick %d framer %s status %s active %r actives %r" % (snap["k"], name, status, active, actives)))
                continue
            if active is None:
                probs.append(("running-framer-no-active", "tick %d framer %s" % (snap["k"], name)))
                continue
            full = lang.outline(fm, active)
            expect = full
            for (fname, main, aux) in csites:
                if fname != name or main not in full:
                    continue
                a = by.get(aux)
                if a is not None and a[4] is not None and (a[8] in (None, main)):   # aux running (has an active frame)
                    cut = lang.head(fm, main)
                    if len(cut) < len(expect):
                        expect = cut
            if tuple(expect) != actives:
                probs.append(("actives-not-outline",
                              "tick %d framer %s active %s actives %r expected %r" % (snap["k"], name, active, actives, tuple(expect))))
            if len(s) > 9 and s[9] != active:
                probs.append(("active-share-stale", "tick %d framer %s share %r active %r" % (snap["k"], name, s[9], active)))
    return probs


# ------------------------------------------------------------------------------- C06

def mon_bracket(prog, rr):
    """enter/exit alternate per frame starting with enter; at every tick boundary the open frames
    are the full outlines of all framers that have an active frame (running framers and active
    auxiliaries, including frames suspended under a conditional auxiliary); exit runs are
    bottom-up chains, enter runs top-down chains; nothing stays open after the run."""
    probs = []
    if any(fm.get("schedule") == "moot" for fm in prog["framers"]):
        # clone programs: build-time clones are framers of the de-sugared program; a reared clone <main>_<moot><n>
        # has the frame forest of its moot
        mprog = lang.desugar(prog)
        fms = _CloneIndex(fm_index(mprog), mprog["moots"])
    else:
        fms = fm_index(prog)
    open_ = {}     # (framer, frame) -> True
    ticks = list(rr.events)

    def scan(k, events):
        last = {}   # framer -> (kind, frame) of previous enter/exit event
        for (framer, frame, ctx, tag) in events:
            if ctx not in ("enter", "exit"):
                if ctx in ("recur", "renter", "rexit", "precur"):
                    last.pop(framer, None) if ctx != "recur" else None
                continue
            if not (tag.endswith(".en") or tag.endswith(".ex")):
                continue
            key = (framer, frame)
            fm = fms.get(framer)
            if ctx == "enter":
                if open_.get(key):
                    probs.append(("enter-twice", "tick %s frame %s.%s entered while already entered" % (k, framer, frame)))
                open_[key] = True
            else:
                if not open_.get(key):
                    probs.append(("exit-without-enter", "tick %s frame %s.%s exited but not entered" % (k, framer, frame)))
                open_[key] = False
            prev = last.get(framer)
            if prev and fm is not None and prev[0] == ctx:
                ov = lang.over_of(fm)
                if ctx == "exit" and ov.get(prev[1]) != frame:
                    probs.append(("exit-order", "tick %s framer %s exit %s then %s is not bottom-up" % (k, framer, prev[1], frame)))
                if ctx == "enter" and ov.get(frame) != prev[1]:
                    probs.append(("enter-order", "tick %s framer %s enter %s then %s is not top-down" % (k, framer, prev[1], frame)))
            last[framer] = (ctx, frame)

    for k, snap in enumerate(rr.ticks):
        scan(k, ticks[k])
        expect = set()
        for s in snap["framers"]:
            fm = fms.get(s[0])
            if fm is None or s[4] is None:
                continue
            if fm.get("schedule", "active") in ("active", "inactive", "slave") and s[1] not in RUNNING:
                continue
            for f in lang.outline(fm, s[4]):
                expect.add((s[0], f))
        got = {k2 for k2, v in open_.items() if v}
        if got != expect:
            probs.append(("open-frames-mismatch",
                          "tick %d open but not in any active outline: %r ; in an active outline but not open: %r"
                          % (k, sorted(got - expect), sorted(expect - got))))
    scan("end", ticks[-1] if len(ticks) > len(rr.ticks) else [])
    left = sorted(k2 for k2, v in open_.items() if v)
    if left and rr.outcome == "returned":
        probs.append(("left-open-after-run", "frames entered and never exited when the run returned: %r" % (left,)))
    return probs


# ------------------------------------------------------------------------------- C08

def guards_of(fr):
    gs = []
    for it in fr["items"]:
        if it[0] == "let":
            gs.extend(it[1])
    return gs


def eval_env_need(n, env):
    """needs over env bits only: ('cmp', path, '==', v, None, neg) / ('bool', path, neg)"""
    if n[0] == "cmp":
        v = env.get(n[1].strip("."))
        r = {"==": v == n[3], "!=": v != n[3], ">=": v >= n[3], "<=": v <= n[3], ">": v > n[3], "<": v < n[3]}[n[2]]
    elif n[0] == "bool":
        r = bool(env.get(n[1].strip(".")))
    else:
        return None
    return (not r) if n[-1] else r


def env_at(prog, envf, k):
    env = {p.strip("."): v for p, v in prog.get("inits", [])}
    for t in range(k + 1):
        for p, v in (envf.get(t) or {}).items():
            env[p.strip(".")] = v
    return env


def mon_guards(prog, rr, envf):
    """No frame is entered at a tick at which one of its `let` guards (over env bits, constant during
    the tick) is false, nor when the first-frame guards of one of its plain auxiliaries are false."""
    probs = []
    fms = fm_index(prog)
    aux_first_guards = {}
    for fm in prog["framers"]:
        first = lang.first_of(fm)
        gs = []
        for f in lang.outline(fm, first):
            gs.extend(guards_of(lang.frame_index(fm)[f]))
        aux_first_guards[fm["name"]] = gs
    for k in range(len(rr.events)):
        env = env_at(prog, envf or {}, min(k, len(rr.ticks) - 1))
        for (framer, frame, ctx, tag) in rr.events[k]:
            if ctx != "enter" or not tag.endswith(".en"):
                continue
            fm = fms.get(framer)
            if fm is None:
                continue
            fr = lang.frame_index(fm)[frame]
            gs = list(guards_of(fr))
            for it in fr["items"]:
                if it[0] == "aux":
                    gs.extend(aux_first_guards.get(it[1], []))
            for g in gs:
                v = eval_env_need(g, env)
                if v is False:
                    probs.append(("entered-with-false-guard",
                                  "tick %d frame %s.%s entered while guard %s is false (env %r)" % (k, framer, frame, lang.emit_need(g), env)))
    return probs


# ------------------------------------------------------------------------------- C09

def mon_aux_lifetime(prog, rr):
    """Plain auxiliaries: entered at their first frame exactly when the main frame is entered;
    run (recur) once per main run while the main frame is active and not suspended; fully exited
    before the main frame's exit actions; never open under two frames at once."""
    probs = []
    fms = fm_index(prog)
    psites = plain_aux_sites(prog)
    by_main = {}
    for (framer, main, aux) in psites:
        by_main.setdefault((framer, main), []).append(aux)
    for k, events in enumerate(rr.events):
        evs = list(events)
        for i, (framer, frame, ctx, tag) in enumerate(evs):
            auxes = by_main.get((framer, frame))
            if not auxes:
                continue
            if ctx == "enter" and tag.endswith(".en"):
                # after main's enter acts each aux's first outline is entered (in order) before anything else of `framer`
                j = i + 1
                for aux in auxes:
                    fm = fms[aux]
                    want = [(aux, f) for f in lang.outline(fm, lang.first_of(fm))]
                    got = []
                    jj = j
                    while jj < len(evs) and len(got) < len(want):
                        e = evs[jj]
                        if e[2] == "enter" and e[3].endswith(".en") and e[0] == aux:
                            got.append((e[0], e[1]))
                        elif e[0] == framer and e[2] in ("enter", "exit", "recur") and e[3].split(".")[-1] in ("en", "ex", "re"):
                            break
                        jj += 1
                    if got != want:
                        probs.append(("aux-not-entered-with-main",
                                      "tick %d main %s.%s entered; aux %s entered %r expected %r" % (k, framer, frame, aux, got, want)))
                    j = jj
            if ctx == "exit" and tag.endswith(".ex"):
                # every aux frame must be closed before main's exit action: look back for open aux frames
                for aux in auxes:
                    openf = set()
                    for kk in range(0, k + 1):
                        upto = rr.events[kk] if kk < k else evs[:i]
                        for e in upto:
                            if e[0] == aux and e[3].endswith(".en") and e[2] == "enter":
                                openf.add(e[1])
                            if e[0] == aux and e[3].endswith(".ex") and e[2] == "exit":
                                openf.discard(e[1])
                    if openf:
                        probs.append(("aux-open-at-main-exit",
                                      "tick %d main %s.%s exit actions ran while aux %s frames %r still entered" % (k, framer, frame, aux, sorted(openf))))
    return probs


# ------------------------------------------------------------------------------- C10

def mon_suspend(prog, rr, envf=None):
    """While a conditional auxiliary stays running through a whole tick: it runs (recur) in that tick
    regardless of its condition, frames strictly below its main frame get no recur and no transition
    evaluation (precur) events, and the main frame's clauses after the `aux ... if` line are skipped.
    At the tick it starts and keeps running: entered + recurred once, lower frames not recurred.
    At the tick it completes: it is fully exited and the lower frames run again (recur) without being
    re-entered, unless the main framer changes outline in that same tick."""
    probs = []
    fms = fm_index(prog)
    for (fname, main, aux) in cond_aux_sites(prog):
        fm = fms[fname]
        axm = fms[aux]
        for k, snap in enumerate(rr.ticks):
            by = snap_by_name(snap)
            prev = snap_by_name(rr.ticks[k - 1]) if k > 0 else None
            a_now = by[aux][4] is not None
            a_prev = prev is not None and prev[aux][4] is not None
            m_now = by[fname]
            evs = rr.events[k]
            if m_now[4] is None:
                continue
            full = lang.outline(fm, m_now[4])
            if main not in full:
                continue
            below = full[full.index(main) + 1:]
            m_prev = prev[fname] if prev else None
            same_outline = m_prev is not None and m_prev[4] == m_now[4] and not any(
                e[0] == fname and e[2] in ("enter", "exit") for e in evs)
            # another conditional aux whose clause is evaluated before this one (a frame above, or the same frame)
            # and that is running at the end of the tick interrupts evaluation before this aux's clause: the
            # statement's "later clauses are skipped" then applies to this aux's own clause (reading recorded in DESIGN 7)
            head_main = lang.head(fm, main)
            preempted = any(f2 == fname and a2 != aux and m2 in head_main and
                            (by[a2][4] is not None or (prev is not None and prev[a2][4] is not None))
                            for (f2, m2, a2) in cond_aux_sites(prog))
            if a_prev and a_now and same_outline and not preempted:
                if not any(e[0] == aux and e[2] == "recur" for e in evs):
                    probs.append(("running-cond-aux-not-run", "tick %d aux %s running but no recur event" % (k, aux)))
                bad = [e for e in evs if e[0] == fname and e[1] in below and e[2] in ("recur", "precur")]
                if bad:
                    probs.append(("suspended-frame-ran", "tick %d frames below %s ran while aux %s suspends them: %r" % (k, main, aux, bad)))
                if any(e[0] == fname and e[1] == main and e[3] == main + ".pz" for e in evs):
                    probs.append(("later-clause-not-skipped", "tick %d clause after `aux %s if` in %s evaluated while aux running" % (k, aux, main)))
            if (not a_prev) and a_now and same_outline:
                want = [f for f in lang.outline(axm, lang.first_of(axm))]
                got = [e[1] for e in evs if e[0] == aux and e[2] == "enter"]
                if got != want:
                    probs.append(("cond-aux-not-entered-at-first", "tick %d aux %s entered %r expected %r" % (k, aux, got, want)))
                if [e for e in evs if e[0] == aux and e[2] == "recur"].__len__() != len(want):
                    probs.append(("cond-aux-first-run-count", "tick %d aux %s recur events %r" % (k, aux, [e for e in evs if e[0] == aux and e[2] == "recur"])))
                bad = [e for e in evs if e[0] == fname and e[1] in below and e[2] == "recur"]
                if bad:
                    probs.append(("suspended-frame-ran", "tick %d aux %s started but lower frames still recurred: %r" % (k, aux, bad)))
            if a_prev and (not a_now) and same_outline:
                openx = [e for e in evs if e[0] == aux and e[2] == "exit"]
                if not openx:
                    probs.append(("completed-cond-aux-not-exited", "tick %d aux %s completed without exit events" % (k, aux)))
                for f in below:
                    if f not in tuple(m_now[5]):
                        continue      # still (or again) suspended by another conditional auxiliary
                    if not any(e[0] == fname and e[1] == f and e[2] == "recur" for e in evs):
                        probs.append(("lower-frame-not-resumed", "tick %d aux %s completed but %s did not recur in the same tick" % (k, aux, f)))
    return probs


# ------------------------------------------------------------------------------- C11

def _clock_clause_holds(it, e, r):
    from mc.flo.ref import check
    if it[0] == "timeout":
        return e >= float(abs(it[1]))
    if it[0] == "repeat":
        return r >= int(abs(it[1]))
    if it[0] == "go":
        ok = True
        for n in it[2]:
            if n[0] == "elapsed":
                v = check(e, n[1], n[2], 0)
            elif n[0] == "recurred":
                v = check(r, n[1], n[2], 0)
            else:
                return None
            v = (not v) if n[-1] else v
            ok = ok and v
        return ok
    return None


def mon_clocks(prog, rr, envf=None, framer_names=None):
    """Literal reading of C11 on a run of flat (un-nested) frames whose transitions depend on clocks only:
    at every evaluation elapsed == store time - time of the last outline change (float difference of the
    observed stamps) and recurred == completed iterations since; the first clause (script order) whose
    clock condition holds fires, at the first evaluation at which it holds; nothing else fires."""
    probs = []
    fms = fm_index(prog)
    for fm in prog["framers"]:
        name = fm["name"]
        if framer_names is not None and name not in framer_names:
            continue
        nx = lang.next_of(fm)
        fidx = lang.frame_index(fm)
        c = None            # tick index of last outline change
        active = None
        for k, snap in enumerate(rr.ticks):
            s = snap_by_name(snap)[name]
            now_active = s[4]
            if now_active is None:
                c, active = None, None
                continue
            stamp = snap["stamp"]
            if active is None:
                # just started (enterAll) in this tick
                c, active = k, now_active
                exp_e, exp_r = 0.0, 0
            else:
                e = stamp - rr.ticks[c]["stamp"]
                r = k - c
                fr = fidx[active]
                target = None
                for it in fr["items"]:
                    h = _clock_clause_holds(it, e, r)
                    if h:
                        far = "next" if it[0] in ("timeout", "repeat") else it[1]
                        target = nx[active] if far == "next" else (active if far == "me" else far)
                        break
                if target is not None:
                    if now_active != target or not any(ev[0] == name and ev[1] == target and ev[2] == "enter" for ev in rr.events[k]):
                        probs.append(("clock-transition-missed",
                                      "tick %d framer %s frame %s: elapsed %r recurred %d satisfy a clause to %s but active is %s"
                                      % (k, name, active, e, r, target, now_active)))
                        return probs
                    c, active = k, target
                    exp_e, exp_r = 0.0, 0
                else:
                    if now_active != active or any(ev[0] == name and ev[2] == "enter" for ev in rr.events[k]):
                        probs.append(("clock-transition-early",
                                      "tick %d framer %s frame %s: elapsed %r recurred %d satisfy no clause but outline changed to %s"
                                      % (k, name, active, e, r, now_active)))
                        return probs
                    exp_e, exp_r = e, r
            if s[6] != exp_e:
                probs.append(("elapsed-wrong", "tick %d framer %s elapsed share %r expected %r (stamp %r, change stamp %r)"
                              % (k, name, s[6], exp_e, stamp, rr.ticks[c]["stamp"])))
                return probs
            if s[7] != exp_r:
                probs.append(("recurred-wrong", "tick %d framer %s recurred share %r expected %r" % (k, name, s[7], exp_r)))
                return probs
    return probs
