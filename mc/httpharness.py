"""
Shared helpers for the HTTP checks that run real Patron / Valet / Porter objects over the socket
doubles of mc/net.py (C28, C31, C34).  Owner: http-agent-2.

  * setup()            once per worker: use_repo, install the socket-module double, a DNS double
                       (IP literals only) and a silent stderr for ioflo.aio.http.serving
  * CutPolicy          ChooserPolicy that offers only a few short-read lengths per recv (1 byte,
                       half, all but one) instead of every prefix, so schedules stay enumerable
  * parse_responses()  strict wire-level HTTP/1.x response framing parser (ground truth for
                       "every response is delimited")
  * parse_requests()   same for requests (what a harness-played server saw)
  * Origin             a harness-played HTTP server on one (scheme, host, port): accepts, reads
                       complete requests, answers through a route function
  * where_of / exc_sig exception signatures

Nothing here imports ioflo at module import.
"""
from __future__ import annotations

import os
import sys
import traceback

from mc import core, net

_FSM = []


class _Dns(object):
    """Stands in for the socket module inside ioflo.aio.aioing: deterministic getaddrinfo that
    resolves IP literals only (no real resolver, no network)."""

    def __getattr__(self, name):
        import socket
        return getattr(socket, name)

    def getaddrinfo(self, host, port, family=0, type=0, proto=0, flags=0):
        import socket
        if not isinstance(host, str):
            raise TypeError("getaddrinfo() argument 1 must be string or None")
        host.encode("idna")
        parts = host.split(".")
        if family in (0, socket.AF_INET) and len(parts) == 4 and all(p.isdigit() and int(p) < 256 for p in parts):
            return [(socket.AF_INET, type or socket.SOCK_DGRAM, 17, "", (host, port or 0))]
        raise socket.gaierror(socket.EAI_NONAME, "Name or service not known")


class _QuietSys(object):
    """Stands in for the sys module inside ioflo.aio.http.serving: same attributes, silent stderr."""
    stderr = open(os.devnull, "w")

    def __getattr__(self, name):
        return getattr(sys, name)


def setup():
    """Idempotent per-process setup.  Returns the installed FakeSocketModule (set `.net` per execution)."""
    if not _FSM:
        core.use_repo()
        _FSM.append(net.FakeSocketModule().install())
        from ioflo.aio.http import serving
        serving.sys = _QuietSys()
        from ioflo.aio import aioing
        aioing.socket = _Dns()
    return _FSM[0]


class _Ssl(object):
    """Stands in for the ssl module inside ioflo.aio.tcp.clienting: contexts that ioflo creates
    itself (no `context=` argument) are FakeSslContexts of the current FakeNet; everything else
    (exception classes, constants) is the real module's."""

    def __init__(self, fsm):
        self.fsm = fsm
        self.created = 0

    def __getattr__(self, name):
        import ssl
        return getattr(ssl, name)

    def create_default_context(self, purpose=None, **kw):
        self.created += 1
        return net.FakeSslContext(self.fsm.net)

    def SSLContext(self, *pa, **kw):
        self.created += 1
        return net.FakeSslContext(self.fsm.net)


def setup_ssl():
    """setup() plus an ssl-module double for ioflo.aio.tcp.clienting (idempotent)."""
    fsm = setup()
    from ioflo.aio.tcp import clienting
    if not isinstance(clienting.ssl, _Ssl):
        clienting.ssl = _Ssl(fsm)
    return fsm


def merge_best(check, results):
    """results: iterable of (Part, {group: (rank, violation-args)}) from workers.  Merges the parts and
    records, per group, the violation with the smallest rank (ranks must be comparable tuples)."""
    best = {}
    for part, b in results:
        part.violations = []
        check.part.merge(part)
        for g, (rank, v) in b.items():
            if g not in best or rank < best[g][0]:
                best[g] = (rank, v)
    for g in sorted(best, key=lambda g: (best[g][0], g)):
        check.part.violation(*best[g][1])


# ----------------------------------------------------------------------------- policy

class CutPolicy:
    """Like net.ChooserPolicy, but a recv that could return any prefix offers only: everything
    (default), 1 byte, half, all but one byte (`cuts` selects among "one", "half", "allbut1").
    Every non-default answer costs `cost`."""

    def __init__(self, chooser, cost=1, cuts=("one", "half", "allbut1")):
        self.ch = chooser
        self.cost = cost
        self.cuts = tuple(cuts)

    def decide(self, sock, op, cands):
        if len(cands) == 1:
            return 0
        if op == "recv" and cands[0][0] == "n":
            full = cands[0][1]
            keep = [0]
            for name, k in (("one", 1), ("half", full // 2), ("allbut1", full - 1)):
                if name not in self.cuts:
                    continue
                a = ("n", k)
                if 0 < k < full and a in cands:
                    i = cands.index(a)
                    if i not in keep:
                        keep.append(i)
            keep += [i for i, c in enumerate(cands) if c[0] != "n"]
            if len(keep) == 1:
                return 0
            j = self.ch.choose(len(keep), "%s.recv" % sock.name, 0, self.cost)
            return keep[j]
        return self.ch.choose(len(cands), "%s.%s" % (sock.name, op), 0, self.cost)


# ----------------------------------------------------------------------------- exceptions

def where_of(ex):
    name = "?"
    for fr in traceback.extract_tb(ex.__traceback__):
        if "/ioflo/" in fr.filename:
            name = fr.name
    return name


def exc_sig(ex):
    return "%s|%s" % (type(ex).__name__, where_of(ex))


# ----------------------------------------------------------------------------- wire parsing

def _head(data):
    """-> (start line bytes, {lower name: value str}, rest) or None if the head is incomplete."""
    head, sep, rest = bytes(data).partition(b"\r\n\r\n")
    if not sep:
        return None
    lines = head.split(b"\r\n")
    hdrs = {}
    for ln in lines[1:]:
        k, s, v = ln.partition(b":")
        hdrs[k.strip().lower().decode("latin-1")] = v.strip().decode("latin-1")
    return lines[0], hdrs, rest


def _dechunk(rest):
    """-> (body, remaining) or None if the chunked body is incomplete / malformed."""
    body = b""
    while True:
        line, sep, rest2 = rest.partition(b"\r\n")
        if not sep:
            return None
        try:
            size = int(line.split(b";")[0].strip(), 16)
        except ValueError:
            return None
        if size == 0:
            # trailers until empty line
            while True:
                tl, sep, rest2 = rest2.partition(b"\r\n")
                if not sep:
                    return None
                if tl == b"":
                    return body, rest2
        if len(rest2) < size + 2 or rest2[size:size + 2] != b"\r\n":
            return None
        body += rest2[:size]
        rest = rest2[size + 2:]


def parse_responses(data, head_only=()):
    """Strict framing parse of a server->client byte stream.  `head_only`: indexes of responses that
    answer HEAD requests (head only, whatever the headers announce; framing "head").
    -> (responses, leftover, problem).  Each response: dict(status=int, headers, framing, body) with
    framing in {"length", "chunked", "bodiless"}.  Parsing stops at the first response that is not
    self-delimiting (problem = "undelimited") or incomplete (problem = "incomplete")."""
    data = bytes(data)
    out = []
    while data:
        h = _head(data)
        if h is None:
            return out, data, "incomplete"
        start, hdrs, rest = h
        parts = start.split(None, 2)
        if len(parts) < 2 or not parts[0].startswith(b"HTTP/1.") or not parts[1].isdigit():
            return out, data, "garbage"
        status = int(parts[1])
        if len(out) in head_only:
            body, framing = b"", "head"
        elif hdrs.get("transfer-encoding", "").lower() == "chunked":
            r = _dechunk(rest)
            if r is None:
                return out, data, "incomplete"
            body, rest = r
            framing = "chunked"
        elif "content-length" in hdrs:
            try:
                n = int(hdrs["content-length"])
            except ValueError:
                return out, data, "garbage"
            if len(rest) < n:
                return out, data, "incomplete"
            body, rest = rest[:n], rest[n:]
            framing = "length"
        elif status in (204, 304) or 100 <= status < 200:
            body, framing = b"", "bodiless"
        else:
            return out, data, "undelimited"
        out.append(dict(status=status, headers=hdrs, framing=framing, body=body, start=start))
        data = rest
    return out, b"", None


def parse_requests(data):
    """-> (requests, leftover).  Each request: dict(method, target, version, headers, body)."""
    data = bytes(data)
    out = []
    while data:
        h = _head(data)
        if h is None:
            break
        start, hdrs, rest = h
        parts = start.decode("latin-1").split(" ")
        if len(parts) != 3:
            break
        if hdrs.get("transfer-encoding", "").lower() == "chunked":
            r = _dechunk(rest)
            if r is None:
                break
            body, rest = r
        else:
            try:
                n = int(hdrs.get("content-length", "0"))
            except ValueError:
                break
            if len(rest) < n:
                break
            body, rest = rest[:n], rest[n:]
        out.append(dict(method=parts[0], target=parts[1], version=parts[2], headers=hdrs, body=body))
        data = rest
    return out, data


# ----------------------------------------------------------------------------- harness-played origin

class Origin:
    """An HTTP origin server the harness plays on a raw listening FakeSocket.
    `route(origin, request) -> response bytes` decides the answer.  TLS origins are the same raw
    sockets: FakeSslSocket on the client side moves plaintext through the same pipes, the
    handshake is a client-side decision.  `.seen` lists (origin key, request dict) in arrival
    order (shared list across origins when passed in)."""

    def __init__(self, fn, scheme, host, port, route, seen=None):
        self.fn = fn
        self.scheme, self.host, self.port = scheme, host, port
        self.key = (scheme, host, port)
        self.route = route
        self.seen = seen if seen is not None else []
        self.ls = fn.listen((host, port), name="%s:%s:%d" % (scheme, host, port))
        self.conns = []      # [socket, buffered bytes]
        self.accepted = 0

    def service(self):
        """Accept everything pending, read everything waiting, answer every complete request.
        -> number of requests answered."""
        n = 0
        while self.ls.backlog:
            conn, addr = self.ls.accept()
            conn.menu = net.Menu()       # the harness side reads naturally
            self.conns.append([conn, b""])
            self.accepted += 1
        for ent in self.conns:
            conn = ent[0]
            if conn.closed:
                continue
            while conn.inbox:
                ent[1] += conn.recv(65536)
            if conn.peer_closed and not conn.inbox:
                conn.close()
                continue
            reqs, left = parse_requests(ent[1])
            ent[1] = left
            for rq in reqs:
                self.seen.append((self.key, rq))
                conn.send(self.route(self, rq))
                n += 1
        return n
