"""
Engine D: byte-arrival exploration (DESIGN section 2, "mc/split").

The state space of an incremental parser's environment is the *arrival schedule* of a
byte string: where the stream is cut into successive receives.  This module enumerates
every schedule within a bound and feeds the pieces into the real ioflo parsers, calling
the parser between pieces exactly as the service loops do.

    cuts(n, k)            every strictly increasing tuple of <= k-1 cut positions in 1..n-1
    splits(data, k)       every way of cutting data into <= k non-empty pieces
    count_splits(n, k)    how many there are (closed form, used to cross-check counters)
    shard(iterable, i, n) deterministic round-robin sharding of an enumeration
    idle_patterns(npieces, counts, max_dev)  idle service passes (parser resumed with NO new bytes) per gap
    guarded(fn, short, long, state)  run one execution under a watchdog, confirm a hit once; stuck_in(ex)
    feed(buf, pieces, step)          extend a bytearray piece by piece, step() after each
    drive(parsent, pieces, ...)      the same for ioflo Parsent-like objects (.msg/.parse/.parser)
    drive_gen(raw, gen, pieces, ...) the same for a bare ioflo parse generator over a bytearray

Enumeration order is simplest first and deterministic: by number of pieces, then
lexicographically by cut positions; so the first failing schedule kept by
Part.violation() is a minimal one and the same on every run.

Nothing here imports ioflo.
"""
from __future__ import annotations

import collections
import itertools
import math

Drive = collections.namedtuple("Drive", "steps finished exc delivered")


def cuts(n, k):
    """Yield every tuple of cut positions (strictly increasing, each in 1..n-1) that cuts
    a string of length n into at most k non-empty pieces.  () = delivered whole."""
    if n <= 0:
        yield ()
        return
    for j in range(0, max(1, k)):
        if j > n - 1:
            break
        for c in itertools.combinations(range(1, n), j):
            yield c


def cut(data, positions):
    """Cut data at the given positions -> list of bytes pieces (all non-empty)."""
    out = []
    a = 0
    for p in positions:
        out.append(bytes(data[a:p]))
        a = p
    out.append(bytes(data[a:]))
    return out


def splits(data, k):
    """Yield (positions, pieces) for every way of cutting data into <= k non-empty pieces."""
    for c in cuts(len(data), k):
        yield c, cut(data, c)


def count_splits(n, k):
    """Number of ways to cut n bytes into <= k non-empty pieces."""
    if n <= 0:
        return 1
    return sum(math.comb(n - 1, j) for j in range(0, max(1, k)) if j <= n - 1)


def shard(iterable, index, nshards):
    """Round-robin slice of a deterministic enumeration."""
    for i, x in enumerate(iterable):
        if i % nshards == index:
            yield x


def show(pieces, limit=200, gaps=None):
    """Human-readable schedule: pieces separated by '|' (latin-1, repr-escaped); idle service
    passes between two pieces are shown as '|~|' (one '~' per pass)."""
    parts = [repr(bytes(p))[2:-1] for p in pieces]
    if gaps and any(gaps):
        s = parts[0]
        for i, part in enumerate(parts[1:]):
            n = gaps[i] if i < len(gaps) else 0
            s += ("|" + "~" * n + "|" if n else "|") + part
    else:
        s = "|".join(parts)
    return s if len(s) <= limit else s[:limit] + "..."


def idle_patterns(npieces, counts=(0, 1), max_dev=None):
    """Idle-pass schedules for a delivery in npieces receives: one tuple per schedule giving, for
    each of the npieces-1 gaps, how many times the parser is resumed with no new bytes before the
    next piece arrives (a service loop polls whether or not bytes arrived).  counts[0] is the
    default; at most max_dev gaps deviate from it (None: every combination).  Default-first order."""
    gaps = max(0, npieces - 1)
    out = []
    for t in itertools.product(range(len(counts)), repeat=gaps):
        dev = sum(1 for i in t if i)
        if max_dev is None or dev <= max_dev:
            out.append((dev, t))
    out.sort()
    return [tuple(counts[i] for i in t) for dev, t in out]


def feed(buf, pieces, step):
    """Append each piece to bytearray `buf` and call step() after each one.
    Returns the number of step() calls.  Exceptions from step() propagate."""
    n = 0
    for p in pieces:
        buf.extend(p)
        step()
        n += 1
    return n


def drive(parsent, pieces, close=False, idle=2, done=None, gaps=None):
    """Deliver pieces into an ioflo Parsent-like object: extend .msg, call .parse() after
    every piece (the way Valet.serviceReqs / Patron.serviceResponse do).  Delivery stops as
    soon as the parser finishes (parsent.parser is None, or done(parsent) is true): what was
    not delivered yet is appended to .msg *without* parsing, so the caller can look at the
    unconsumed remainder.  If close: after the last piece call parsent.close() and parse
    again (peer closed the connection).  `idle` extra parse() calls with no new bytes are
    made while the parser is still unfinished (a service loop keeps polling).  gaps[i] idle
    parse() calls are made between piece i and piece i+1 (see idle_patterns).
    Returns Drive(steps, finished, exc, delivered): exc is the exception parse() raised (or None),
    delivered the number of bytes that had been received when the parser finished (or raised)."""
    steps = 0
    delivered = 0
    finished = False
    exc = None
    if done is None:
        done = lambda p: p.parser is None
    i = 0
    try:
        for i, p in enumerate(pieces):
            parsent.msg.extend(p)
            delivered += len(p)
            steps += 1
            parsent.parse()
            if done(parsent):
                finished = True
                break
            if gaps and i < len(pieces) - 1 and i < len(gaps):
                for _ in range(gaps[i]):
                    steps += 1
                    parsent.parse()
                    if done(parsent):
                        finished = True
                        break
                if finished:
                    break
        if not finished:
            i = len(pieces)
            for _ in range(idle):
                steps += 1
                parsent.parse()
                if done(parsent):
                    finished = True
                    break
        if not finished and close:
            parsent.close()
            for _ in range(max(1, idle)):
                steps += 1
                parsent.parse()
                if done(parsent):
                    finished = True
                    break
    except Exception as ex:  # the check decides what an exception means
        exc = ex
        finished = True
    # undelivered pieces arrive later: put them in the buffer untouched
    for p in pieces[i + 1:]:
        parsent.msg.extend(p)
    return Drive(steps, finished, exc, delivered)


def guarded(fn, short=5.0, long=20.0, state=None):
    """Run fn() under core.watchdog(short).  A hit is confirmed once by running fn() again under
    watchdog(long) (a loaded machine must not be mistaken for a hang); `state` (a dict shared by the
    caller across calls) remembers a confirmed hang so later hits are taken at face value.
    Returns (result, None) or (None, Watchdog exception of the confirming run).  fn must build
    fresh objects itself: after a hit the interrupted objects are garbage."""
    from mc import core
    try:
        with core.watchdog(short):
            return fn(), None
    except core.Watchdog as ex:
        if state is not None and state.get("confirmed"):
            return None, ex
    try:
        with core.watchdog(long):
            return fn(), None
    except core.Watchdog as ex:
        if state is not None:
            state["confirmed"] = True
        return None, ex


def stuck_in(ex, marker="/ioflo/"):
    """Innermost function of files matching marker in a Watchdog's traceback (where the code spins)."""
    import traceback
    fn = "?"
    for fr in traceback.extract_tb(ex.__traceback__):
        if marker in fr.filename:
            fn = fr.name
    return fn


def drive_gen(raw, gen, pieces, idle=1):
    """Deliver pieces into bytearray `raw` which generator `gen` parses; next(gen) after
    every piece (+ `idle` polls).  Collects every non-None value yielded.
    Returns (steps, yielded, exc)."""
    steps = 0
    out = []
    exc = None
    try:
        for p in pieces:
            raw.extend(p)
            steps += 1
            v = next(gen)
            if v is not None:
                out.append(v)
        for _ in range(idle):
            steps += 1
            v = next(gen)
            if v is not None:
                out.append(v)
    except StopIteration:
        pass
    except Exception as ex:
        exc = ex
    return steps, out, exc
