"""
Core of the /verif model-checking machinery (see DESIGN.md section 1).

  * Chooser + dfs()      stateless, deviation-bounded exploration of choice sequences
  * bfs()                explicit-state search; a state is the history that reaches it
  * Check                evidence, violation / known-finding bookkeeping, replay files
  * pmap()               shard work over long-lived worker processes
  * watchdog()           per-execution soft time limit raising a BaseException

Nothing here imports ioflo at module import; call use_repo() first.
"""
from __future__ import annotations

import collections
import contextlib
import hashlib
import json
import multiprocessing
import os
import signal
import sys
import time
import traceback

VERIF = os.path.dirname(os.path.dirname(os.path.abspath(__file__)))
REPO = os.environ.get("VERIF_REPO", "/repo")
TIER = os.environ.get("VERIF_TIER", "quick")
if TIER not in ("quick", "thorough"):
    TIER = "quick"
try:
    SEED = int(os.environ.get("VERIF_SEED", "0"))
except ValueError:
    SEED = 0
NPROC = int(os.environ.get("VERIF_NPROC", "0")) or min(16, os.cpu_count() or 1)
GUARD = "IOFLO_VERIF"


def use_repo(preload_abc=True):
    """Make `import ioflo` resolve to REPO's working tree (not an installed copy)."""
    os.environ.setdefault(GUARD, "1")
    if preload_abc:
        import collections.abc  # noqa: F401  (C01 is the check that goes without this)
    import warnings
    warnings.filterwarnings("ignore", category=SyntaxWarning)
    warnings.filterwarnings("ignore", category=DeprecationWarning)
    if REPO in sys.path:
        sys.path.remove(REPO)
    sys.path.insert(0, REPO)
    for name in list(sys.modules):
        if name == "ioflo" or name.startswith("ioflo."):
            f = getattr(sys.modules[name], "__file__", "") or ""
            if not f.startswith(REPO + os.sep):
                del sys.modules[name]
    import ioflo
    f = os.path.abspath(ioflo.__file__)
    if not f.startswith(os.path.abspath(REPO) + os.sep):
        raise BrokenCheck("ioflo imported from %s, not from %s" % (f, REPO))
    # silence ioflo's console
    try:
        from ioflo.aid import consoling
        consoling.getConsole().reinit(verbosity=0)
    except Exception:
        pass
    return ioflo


class BrokenCheck(Exception):
    """The check itself malfunctioned (nondeterminism, harness error). Exit code 2."""


class Watchdog(BaseException):
    """Soft time limit hit. BaseException: ioflo swallows IOError/Exception in places."""


@contextlib.contextmanager
def watchdog(seconds):
    def _h(signum, frame):
        raise Watchdog("watchdog %.1fs" % seconds)
    old = signal.signal(signal.SIGALRM, _h)
    # periodic: if the first Watchdog lands inside a generator finaliser and is swallowed there
    # ("Exception ignored in generator ..."), the next one still interrupts the guarded body
    signal.setitimer(signal.ITIMER_REAL, seconds, max(0.5, seconds / 4.0))
    try:
        yield
    finally:
        signal.setitimer(signal.ITIMER_REAL, 0)
        signal.signal(signal.SIGALRM, old)


# --------------------------------------------------------------------------- DFS

class Nondeterminism(BrokenCheck):
    pass


class Chooser:
    """Records choice points. Replays `prefix`, then answers `default` everywhere."""

    def __init__(self, prefix=()):
        self.prefix = list(prefix)
        self.points = []        # (n, label, default, cost, chosen)

    def choose(self, n, label="", default=0, cost=1):
        if n <= 0:
            raise BrokenCheck("choose() with n=%r at %r" % (n, label))
        i = len(self.points)
        if i < len(self.prefix):
            c = self.prefix[i]
            if not (0 <= c < n):
                raise Nondeterminism("replay: choice %d out of range %d at point %d %r"
                                     % (c, n, i, label))
        else:
            c = default
        self.points.append((n, label, default, cost, c))
        return c

    def pick(self, seq, label="", default=0, cost=1):
        return seq[self.choose(len(seq), label, default, cost)]

    @property
    def choices(self):
        return [p[4] for p in self.points]

    def deviations(self, upto=None):
        pts = self.points if upto is None else self.points[:upto]
        return sum(p[3] for p in pts if p[4] != p[2])


def dfs(run, bound=None, max_execs=None, prefix=(), on_exec=None):
    """Enumerate every choice sequence of `run(ch)` whose deviation cost is <= bound
    (bound None: all of them).  `run` must be deterministic given the choices.
    Returns dict(executions, capped, max_points, bound).  Iterative, depth first.
    `on_exec(ch, result)` is called after each execution."""
    stack = [list(prefix)]
    nexec = 0
    capped = False
    maxpts = 0
    base = len(prefix)
    while stack:
        pre = stack.pop()
        ch = Chooser(pre)
        res = run(ch)
        nexec += 1
        if len(ch.points) < len(pre):
            raise Nondeterminism("replay consumed %d of %d prefix choices"
                                 % (len(ch.points), len(pre)))
        maxpts = max(maxpts, len(ch.points))
        if on_exec is not None:
            on_exec(ch, res)
        # spawn alternatives at every point after the prefix
        start = max(len(pre), base)
        cost_before = ch.deviations(start)
        alts = []
        for i in range(start, len(ch.points)):
            n, label, default, cost, c = ch.points[i]
            # c == default here (beyond prefix)
            if bound is None or cost_before + cost <= bound:
                for a in range(n):
                    if a != default:
                        alts.append(ch.choices[:i] + [a])
            # cost_before unchanged: point i took its default
        stack.extend(reversed(alts))
        if max_execs is not None and nexec >= max_execs and stack:
            capped = True
            break
    return dict(executions=nexec, capped=capped, max_points=maxpts, bound=bound)


# --------------------------------------------------------------------------- BFS

def bfs(init_events, enabled, build, canon, check=None, max_depth=None,
        max_states=None, dedupe="global"):
    """Explicit-state search.  A state is the event history that reaches it.
        build(history)   -> fresh real object(s) with the history replayed
        enabled(obj, history) -> iterable of events
        canon(obj)       -> hashable canonical form
        check(obj, history) -> None | raises/returns violation (handled by caller)
    `check` is called on every transition's target (before dedupe).  If check returns
    a truthy value the target is not expanded further.
    Returns dict(states, transitions, max_depth, fixpoint, capped)."""
    h0 = list(init_events)
    o0 = build(h0)
    if check:
        check(o0, h0)
    seen = {canon(o0)}
    frontier = collections.deque([h0])
    transitions = 0
    depth_reached = 0
    capped = False
    while frontier:
        hist = frontier.popleft()
        d = len(hist) - len(h0)
        if max_depth is not None and d >= max_depth:
            capped = True
            continue
        obj = build(hist)
        for ev in list(enabled(obj, hist)):
            h2 = hist + [ev]
            o2 = build(h2)
            transitions += 1
            stop = check(o2, h2) if check else None
            depth_reached = max(depth_reached, d + 1)
            if stop:
                continue
            k = canon(o2)
            if dedupe == "layer":
                k = (d + 1, k)
            if k not in seen:
                seen.add(k)
                frontier.append(h2)
                if max_states is not None and len(seen) >= max_states:
                    capped = True
                    frontier.clear()
                    break
    return dict(states=len(seen), transitions=transitions, max_depth=depth_reached,
                fixpoint=not capped, capped=capped)


# --------------------------------------------------------------------------- pool

_WORKER_FN = None


def _worker_init(fn, initfn):
    global _WORKER_FN
    _WORKER_FN = fn
    signal.signal(signal.SIGINT, signal.SIG_IGN)
    if initfn:
        initfn()


def _worker_call(item):
    try:
        return ("ok", _WORKER_FN(item))
    except Nondeterminism as ex:
        return ("nondet", "%s\n%s" % (ex, traceback.format_exc()))
    except BrokenCheck as ex:
        return ("broken", "%s\n%s" % (ex, traceback.format_exc()))
    except Watchdog as ex:
        return ("broken", "watchdog in worker: %s\n%s" % (ex, traceback.format_exc()))
    except Exception as ex:  # harness bug
        return ("broken", "%r\n%s" % (ex, traceback.format_exc()))


def pmap(fn, items, procs=None, initfn=None, chunksize=1, ordered=True):
    """Map fn over items in long-lived forked workers.  Exceptions in a worker are
    harness errors -> BrokenCheck in the parent."""
    items = list(items)
    procs = procs or NPROC
    if procs <= 1 or len(items) <= 1:
        if initfn:
            initfn()
        out = []
        for it in items:
            out.append(fn(it))
        return out
    import concurrent.futures as cf
    ctx = multiprocessing.get_context("fork")
    out = []
    # ProcessPoolExecutor (not multiprocessing.Pool): a worker that dies makes the map raise
    # BrokenProcessPool instead of blocking the parent forever
    with cf.ProcessPoolExecutor(min(procs, len(items)), mp_context=ctx, initializer=_worker_init,
                                initargs=(fn, initfn)) as pool:
        try:
            for tag, val in pool.map(_worker_call, items, chunksize=chunksize):
                if tag != "ok":
                    for p_ in list(getattr(pool, "_processes", {}).values()):
                        p_.terminate()
                    if tag == "nondet":
                        raise Nondeterminism("worker failed: " + val)
                    raise BrokenCheck("worker failed: " + val)
                out.append(val)
        except cf.process.BrokenProcessPool as ex:
            raise BrokenCheck("a worker process died: %r" % (ex,))
    return out


# --------------------------------------------------------------------------- findings

def load_known():
    out = []
    for path in (os.path.join(VERIF, "known_findings.json"), os.environ.get("VERIF_KNOWN_EXTRA")):
        if path and os.path.exists(path):
            with open(path) as f:
                out.extend(json.load(f).get("findings", []))
    return out


def jsonable(o, depth=0):
    if depth > 8:
        return repr(o)
    if isinstance(o, (str, int, bool)) or o is None:
        return o
    if isinstance(o, float):
        if o != o or o in (float("inf"), float("-inf")):
            return repr(o)
        return o
    if isinstance(o, bytes):
        return "b:" + o.decode("latin-1")
    if isinstance(o, bytearray):
        return "b:" + bytes(o).decode("latin-1")
    if isinstance(o, dict):
        return {str(k): jsonable(v, depth + 1) for k, v in o.items()}
    if isinstance(o, (list, tuple, set, frozenset, collections.deque)):
        return [jsonable(v, depth + 1) for v in o]
    return repr(o)


class Part:
    """Mergeable partial result produced by a worker shard."""

    def __init__(self):
        self.evaluations = 0
        self.states = 0
        self.transitions = 0
        self.traces = 0
        self.keys = set()         # distinct non-trivial case keys (hashed)
        self.outcomes = collections.Counter()
        self.samples = []
        self.violations = []      # (group, key, what, replay)
        self.notes = collections.Counter()
        self.extra = {}
        self.capped = False

    def nontrivial(self, key):
        if not isinstance(key, (str, bytes)):
            key = repr(key)
        if isinstance(key, str):
            key = key.encode("utf-8", "backslashreplace")
        self.keys.add(hashlib.blake2b(key, digest_size=8).digest())

    def outcome(self, o):
        self.outcomes[o if isinstance(o, str) else repr(o)] += 1

    def sample(self, s, limit=4):
        if len(self.samples) < limit:
            self.samples.append(jsonable(s))

    def violation(self, group, example, what, replay=None):
        """group: coarse signature (op + divergence kind); example: the concrete failing
        case (string).  Only the first example per group is kept (enumerations run
        simplest-first, so that is the minimal one)."""
        for v in self.violations:
            if v[0] == group:
                return
        self.violations.append((group, str(example), what, jsonable(replay)))

    def merge(self, other):
        self.evaluations += other.evaluations
        self.states += other.states
        self.transitions += other.transitions
        self.traces += other.traces
        self.keys |= other.keys
        self.outcomes.update(other.outcomes)
        self.notes.update(other.notes)
        for s in other.samples:
            if len(self.samples) < 6:
                self.samples.append(s)
        for v in other.violations:
            if all(v[0] != w[0] for w in self.violations):
                self.violations.append(v)
        for k, v in other.extra.items():
            self.extra.setdefault(k, v)
        self.capped = self.capped or other.capped
        return self


class Check:
    def __init__(self, pid, level, technique=""):
        self.pid = pid
        self.level = level
        self.technique = technique
        self.t0 = time.time()
        self.part = Part()
        self.tier = TIER
        self.seed = SEED
        self.assumptions = []
        self.coverage_extra = {}

    # convenience pass-throughs
    def merge(self, parts):
        for p in parts:
            self.part.merge(p)

    def finish(self, rule, exhaustive=None, explanation=None):
        """Write evidence, print finding lines, return the exit code."""
        p = self.part
        known = [k for k in load_known() if k.get("property") == self.pid]
        known_keys = {k["key"]: k for k in known if k.get("status") == "known"}
        nviol = 0
        lines = []
        seen_known = set()
        for group, example, what, replay in p.violations:
            key = "%s|%s" % (group, example)
            if key in known_keys:
                seen_known.add(key)
                lines.append("KNOWN-FINDING: property=%s %s [%s]" % (self.pid, what, key))
                continue
            nviol += 1
            path = self._write_replay(key, what, replay)
            lines.append("VIOLATION property=%s replay=%s" % (self.pid, path))
            lines.append("  what: %s" % what)
            lines.append("  key:  %s" % key)
        stale = [k for k in known_keys if k not in seen_known]
        cov = dict(self.coverage_extra)
        # keys the evidence schema types: an extra of another type is kept under <key>_detail, never in the typed slot
        _typed = dict(states=int, transitions=int, traces_validated_against_impl=int, obligations=int, discharged=int,
                      checker_cmd=str, trusted_base=list, programs=int, disagreements_checked=int, explanation=str)
        for k, t in _typed.items():
            if k in cov and (not isinstance(cov[k], t) or isinstance(cov[k], bool)):
                v = cov.pop(k)
                cov[k + "_detail"] = v
                if t is int and isinstance(v, (list, tuple, dict, set)):
                    cov[k] = len(v)
        cov.update(
            evaluations=p.evaluations,
            distinct_nontrivial=len(p.keys),
            rule=rule,
            samples=p.samples or ["(none recorded)"],
            distinct_outcomes=len(p.outcomes),
            outcome_histogram=dict(p.outcomes.most_common(12)),
            capped=bool(p.capped),
        )
        if self.level == "model_checking":
            cov.update(states=max(p.states, 0), transitions=max(p.transitions, 0),
                       traces_validated_against_impl=p.traces)
        elif p.states or p.transitions:
            cov.update(states=p.states, transitions=p.transitions)
        if exhaustive is not None:
            cov["exhaustive"] = bool(exhaustive) and not p.capped
        if explanation:
            cov["explanation"] = explanation
        if p.notes:
            cov["notes"] = dict(p.notes)
        for k, v in p.extra.items():
            cov.setdefault(k, jsonable(v))
        cov["known_findings_reported"] = sorted(seen_known)
        if stale:
            cov["known_findings_not_reproduced"] = sorted(stale)
        ev = dict(property_id=self.pid, tier=self.tier, seed=self.seed, level=self.level,
                  coverage=cov, assumptions=self.assumptions,
                  wall_s=round(time.time() - self.t0, 3), violations=nviol,
                  technique=self.technique, repo=REPO)
        evdir = os.path.join(VERIF, "evidence")
        if os.path.abspath(REPO) != "/repo":   # scratch worktree run: do not touch real evidence
            evdir = os.environ.get("VERIF_EVIDENCE_DIR", os.path.join(VERIF, "scratch", "evidence"))
        os.makedirs(evdir, exist_ok=True)
        evpath = os.path.join(evdir, self.pid + ".json")
        tmp = evpath + ".tmp%d" % os.getpid()
        with open(tmp, "w") as f:
            json.dump(ev, f, indent=1, sort_keys=True)
            f.write("\n")
        os.replace(tmp, evpath)
        for ln in lines:
            print(ln)
        print("%s %s tier=%s evals=%d distinct=%d states=%d transitions=%d outcomes=%d "
              "violations=%d known=%d wall=%.1fs%s" % (
                  self.pid, "FAIL" if nviol else "ok", self.tier, p.evaluations,
                  len(p.keys), p.states, p.transitions, len(p.outcomes), nviol,
                  len(seen_known), time.time() - self.t0,
                  " CAPPED" if p.capped else ""))
        sys.stdout.flush()
        return 1 if nviol else 0

    def _write_replay(self, key, what, replay):
        d = os.path.join(VERIF, "replays", self.pid)
        if os.path.abspath(REPO) != "/repo":   # scratch worktree run: keep real replay dir clean
            d = os.path.join(VERIF, "scratch", "replays", self.pid)
        os.makedirs(d, exist_ok=True)
        sha = hashlib.sha1(key.encode("utf-8", "backslashreplace")).hexdigest()[:12]
        path = os.path.join(d, sha + ".json")
        with open(path, "w") as f:
            json.dump(dict(property=self.pid, key=key, what=what, replay=replay,
                           tier=self.tier, seed=self.seed), f, indent=1)
            f.write("\n")
        return path


def main(check_fn):
    """Run check_fn() -> exit code; map harness failures to exit 2."""
    try:
        rc = check_fn()
    except Nondeterminism as ex:
        # The same choice prefix did not reproduce the same execution.  The harness owns every source of
        # nondeterminism it knows of, so either the machine stalled (flake) or the code under test keeps state
        # across independent executions (e.g. a mutable default shared by all instances).  Decide by running
        # the whole check once more in a fresh process: silent there -> flake; diverging again -> violation.
        modname = getattr(getattr(sys.modules.get("__main__"), "__spec__", None), "name", None) or ""
        pid = "C" + modname.rsplit(".c", 1)[-1] if ".c" in modname else None
        print("NONDETERMINISM: %s" % str(ex).splitlines()[0])
        if pid and not os.environ.get("VERIF_NONDET_RETRY"):
            import subprocess
            sys.stdout.flush()
            rc = subprocess.call([sys.executable, "-m", modname] + sys.argv[1:], env=dict(os.environ, VERIF_NONDET_RETRY="1"))
        elif pid:
            base = "/verif/replays" if REPO == "/repo" else "/verif/scratch/replays"
            os.makedirs(os.path.join(base, pid), exist_ok=True)
            path = os.path.join(base, pid, "nondeterministic-replay.json")
            with open(path, "w") as f:
                json.dump(dict(property=pid, group="nondeterministic-replay",
                               what="replaying a recorded choice prefix did not reproduce the execution, twice, in fresh processes: "
                                    "the code under test keeps state across independent executions of the harness",
                               detail=str(ex)[:4000]), f, indent=1)
            print("VIOLATION property=%s replay=%s" % (pid, path))
            print("  what: replay of a recorded schedule diverged in two fresh processes (state kept across executions)")
            rc = 1
        else:
            traceback.print_exc()
            rc = 2
    except BrokenCheck as ex:
        print("BROKEN-CHECK: %s" % ex)
        traceback.print_exc()
        rc = 2
    except Watchdog as ex:
        print("BROKEN-CHECK: watchdog outside an execution: %s" % ex)
        traceback.print_exc()
        rc = 2
    sys.stdout.flush()
    sys.stderr.flush()
    os._exit(rc if isinstance(rc, int) else 2)
