"""
Engine E: in-memory file system with a durability model and crash enumeration
(DESIGN.md section 2 engine E, paragraph C23).  File oracle of C22, engine of C23.

Seams (harness side only, nothing in ioflo is edited):

    fs = VFS()
    with installed(fs):          # ioflo.base.logging.os / .datetime replaced; the real
        ...                      # filing.ocfn runs over filing.os.open/fdopen + filing.open shims
        ... drive a real Logger / Log ...   (installed(fs, real_ocfn=False): logging.ocfn = fs.ocfn)

Three levels of file data, as for a real buffered Python file on a POSIX system:

    handle buffer   write() lands here (user space, lost when the process dies)
    inode.cache     flush() moves the handle buffer here (kernel page cache)
    inode.durable   os.fsync(fd) moves the cache here

Durability model (stated assumption of C23):
  * directory operations (create, rename, remove, truncate-on-open, mkdir) are atomic and
    durable in program order;
  * file data is durable only up to the last fsync;
  * at a crash each file keeps its durable bytes plus ANY PREFIX -- cut at a write boundary
    or in the middle of a write -- of the bytes appended since (cache, then the buffers of
    the handles still open on it: a user-space buffer may spill at any moment).

Every operation is journalled; with `snapshots=True` the file system state after every
operation is kept, so "crash after operation i" is `fs.snaps[i]` of ONE deterministic run
(a crash only stops the program, it cannot change what happened before), and
`crash_images(snap)` enumerates every admissible loss pattern of that state.

Only appending writes are modelled (Log opens 'a+', or 'w+' on a new/truncated file and
writes at the end); a write in the middle of a file raises VfsUnsupported.
"""
from __future__ import annotations

import contextlib
import datetime as _datetime
import errno
import io
import itertools
import os as _os

ROOT = "/vfs"

# File descriptors are unique over all VFS instances of the process and carry their file:
# a Logger runner that is finalised late (generator `finally: close()`, possibly during
# garbage collection, after a newer VFS has been installed) must still fsync ITS file.
_FDCOUNT = itertools.count(3)


class _Fd(int):
    """An int file descriptor that knows its VFile (or, between os.open and os.fdopen,
    its (path, inode))."""
    vfile = None
    raw = None


class VfsUnsupported(Exception):
    """The code under test used something this double does not model (broken check)."""


class Inode:
    __slots__ = ("ino", "durable", "cache")

    def __init__(self, ino):
        self.ino = ino
        self.durable = ""      # survives any crash
        self.cache = []        # chunks flushed to the OS, not yet fsynced

    def os_view(self):
        return self.durable + "".join(self.cache)


class VFile:
    """File object returned by VFS.ocfn/open: the subset of io.TextIOWrapper that
    ioflo.base.logging.Log and its unit tests use."""

    def __init__(self, fs, path, inode, mode, fd=None):
        self._fs = fs
        self.name = path
        self.mode = mode
        self._inode = inode
        self._buf = []                 # user-space write buffer (chunks)
        self._pos = 0                  # read position
        self.closed = False
        self._fd = fs._newfd(self, fd)
        plus = "+" in mode
        self._readable = mode.startswith("r") or plus
        self._writable = (not mode.startswith("r")) or plus
        self._append = mode.startswith("a")

    # ---- helpers
    def _check(self):
        if self.closed:
            raise ValueError("I/O operation on closed file.")

    def _logical(self):
        return self._inode.os_view() + "".join(self._buf)

    # ---- writing
    def writable(self):
        return self._writable

    def readable(self):
        return self._readable

    def write(self, s):
        self._check()
        if not self._writable:
            raise io.UnsupportedOperation("not writable")
        if not isinstance(s, str):
            raise TypeError("write() argument must be str, not %s" % type(s).__name__)
        if not self._append and self._pos != len(self._logical()):
            raise VfsUnsupported("write not at the end of %s (mode %s)" % (self.name, self.mode))
        if s:
            self._buf.append(s)
        self._pos = len(self._logical())
        self._fs._op("write", self.name, s, ino=self._inode.ino)
        return len(s)

    def flush(self):
        self._check()
        self._flush()

    def _flush(self, implicit=False):
        moved = bool(self._buf)
        if moved:
            self._inode.cache.extend(self._buf)
            self._buf = []
        if moved or not implicit:      # an implicit flush of nothing is not an operation
            self._fs._op("flush", self.name, implicit, ino=self._inode.ino)

    def fileno(self):
        self._check()
        return self._fd

    def close(self):
        if self.closed:
            return
        self._flush(implicit=True)     # Python's close() flushes to the OS (no fsync)
        self.closed = True
        self._fs._fds.pop(self._fd, None)
        self._fs._op("close", self.name, ino=self._inode.ino)

    def truncate(self, size=None):
        self._check()
        if not self._writable:
            raise io.UnsupportedOperation("not writable")
        self._flush(implicit=True)
        if size is None:
            size = self._pos
        whole = self._inode.os_view()
        # metadata operation: modelled atomic and durable like truncate-on-open
        self._inode.durable = whole[:size]
        self._inode.cache = []
        self._fs._op("truncate", self.name, size, ino=self._inode.ino)
        return size

    # ---- reading (a read flushes the handle's own write buffer first, as BufferedRandom does)
    def _rd(self):
        self._check()
        if not self._readable:
            raise io.UnsupportedOperation("not readable")
        if self._buf:
            self._flush(implicit=True)
        return self._inode.os_view()

    def seek(self, pos, whence=0):
        self._check()
        size = len(self._logical())
        if whence == 0:
            self._pos = pos
        elif whence == 1:
            self._pos += pos
        else:
            self._pos = size + pos
        self._pos = max(0, self._pos)
        return self._pos

    def tell(self):
        self._check()
        return self._pos

    def read(self, n=-1):
        data = self._rd()
        if n is None or n < 0:
            out = data[self._pos:]
        else:
            out = data[self._pos:self._pos + n]
        self._pos += len(out)
        return out

    def readline(self):
        data = self._rd()
        if self._pos >= len(data):
            return ""
        j = data.find("\n", self._pos)
        end = len(data) if j < 0 else j + 1
        out = data[self._pos:end]
        self._pos = end
        return out

    def readlines(self):
        out = []
        while True:
            ln = self.readline()
            if not ln:
                return out
            out.append(ln)

    def __iter__(self):
        return iter(self.readlines())

    def __enter__(self):
        return self

    def __exit__(self, *exc):
        self.close()
        return False

    def __repr__(self):
        return "<VFile %s mode=%s%s>" % (self.name, self.mode, " closed" if self.closed else "")


class _PathShim:
    """os.path: pure functions from the real os.path, file system questions from the VFS."""

    def __init__(self, fs):
        self._fs = fs
        for name in ("join", "abspath", "splitext", "basename", "dirname", "normpath",
                     "split", "isabs", "expanduser", "sep"):
            setattr(self, name, getattr(_os.path, name))

    def exists(self, path):
        p = self._fs._norm(path)
        return p in self._fs.files or p in self._fs.dirs

    def isdir(self, path):
        return self._fs._norm(path) in self._fs.dirs

    def isfile(self, path):
        return self._fs._norm(path) in self._fs.files

    def getsize(self, path):
        p = self._fs._norm(path)
        if p in self._fs.files:
            return len(self._fs.files[p].os_view())   # what the OS sees: no handle buffers
        if p in self._fs.dirs:
            return 4096
        raise FileNotFoundError(errno.ENOENT, _os.strerror(errno.ENOENT), path)

    def __getattr__(self, name):
        raise VfsUnsupported("os.path.%s is not shimmed by mc.vfs" % name)


class _OsShim:
    """Stand-in for the `os` module global of ioflo.base.logging."""
    error = OSError
    sep = _os.sep
    linesep = _os.linesep
    O_EXCL, O_CREAT, O_RDWR = _os.O_EXCL, _os.O_CREAT, _os.O_RDWR

    def __init__(self, fs):
        self._fs = fs
        self.path = _PathShim(fs)

    def makedirs(self, path, mode=0o777, exist_ok=False):
        fs = self._fs
        p = fs._norm(path)
        if p in fs.dirs or p in fs.files:
            if exist_ok and p in fs.dirs:
                return
            raise FileExistsError(errno.EEXIST, _os.strerror(errno.EEXIST), path)
        parts = []
        q = p
        while q not in fs.dirs:
            if q in fs.files:
                raise NotADirectoryError(errno.ENOTDIR, _os.strerror(errno.ENOTDIR), q)
            parts.append(q)
            q = _os.path.dirname(q)
        for q in reversed(parts):
            fs.dirs.add(q)
            fs._op("mkdir", q)

    def mkdir(self, path, mode=0o777):
        fs = self._fs
        p = fs._norm(path)
        if p in fs.dirs or p in fs.files:
            raise FileExistsError(errno.EEXIST, _os.strerror(errno.EEXIST), path)
        if _os.path.dirname(p) not in fs.dirs:
            raise FileNotFoundError(errno.ENOENT, _os.strerror(errno.ENOENT), path)
        fs.dirs.add(p)
        fs._op("mkdir", p)

    def rename(self, old, new):
        fs = self._fs
        o, n = fs._norm(old), fs._norm(new)
        fs.rename_calls += 1
        if fs.rename_calls in fs.fail_renames:          # injected transient fault: nothing happens
            fs.mark("rename-failed", old=o, new=n, call=fs.rename_calls)
            raise PermissionError(errno.EACCES, _os.strerror(errno.EACCES), old)
        if o not in fs.files:
            if o in fs.dirs:
                raise VfsUnsupported("rename of a directory")
            raise FileNotFoundError(errno.ENOENT, _os.strerror(errno.ENOENT), old)
        if n in fs.dirs:
            raise IsADirectoryError(errno.EISDIR, _os.strerror(errno.EISDIR), new)
        if _os.path.dirname(n) not in fs.dirs:
            raise FileNotFoundError(errno.ENOENT, _os.strerror(errno.ENOENT), new)
        inode = fs.files.pop(o)
        over = fs.files.get(n)
        fs.files[n] = inode
        fs._op("rename", o, n, ino=inode.ino,
               size=len(inode.os_view()),
               over=(over.ino if over is not None and over is not inode else None))

    replace = rename

    def remove(self, path):
        fs = self._fs
        p = fs._norm(path)
        if p not in fs.files:
            raise FileNotFoundError(errno.ENOENT, _os.strerror(errno.ENOENT), path)
        inode = fs.files.pop(p)
        fs._op("remove", p, ino=inode.ino)

    unlink = remove

    def listdir(self, path="."):
        fs = self._fs
        p = fs._norm(path)
        if p not in fs.dirs:
            raise FileNotFoundError(errno.ENOENT, _os.strerror(errno.ENOENT), path)
        out = set()
        for q in list(fs.files) + list(fs.dirs):
            if q != p and _os.path.dirname(q) == p:
                out.add(_os.path.basename(q))
        return sorted(out)

    def fsync(self, fd):
        f = getattr(fd, "vfile", None) or self._fs._fds.get(fd)
        if f is None or f.closed:
            raise OSError(errno.EBADF, _os.strerror(errno.EBADF))
        fs = f._fs
        inode = f._inode
        if inode.cache:
            inode.durable += "".join(inode.cache)
            inode.cache = []
        fs._op("fsync", f.name, ino=inode.ino)

    def getcwd(self):
        return ROOT

    # ---- low level open, as used by the real ioflo.aid.filing.ocfn
    O_TRUNC, O_APPEND, O_RDONLY, O_WRONLY = _os.O_TRUNC, _os.O_APPEND, _os.O_RDONLY, _os.O_WRONLY

    def open(self, path, flags, mode=0o777):
        fs = self._fs
        p = fs._norm(path)
        if p in fs.dirs:
            raise IsADirectoryError(errno.EISDIR, _os.strerror(errno.EISDIR), path)
        inode = fs.files.get(p)
        if inode is not None:
            if flags & _os.O_CREAT and flags & _os.O_EXCL:
                raise FileExistsError(errno.EEXIST, _os.strerror(errno.EEXIST), path)
            if flags & _os.O_TRUNC:
                lost = len(inode.os_view())
                inode.durable = ""
                inode.cache = []
                fs._op("truncate", p, 0, ino=inode.ino, lost=lost)
        else:
            if not flags & _os.O_CREAT:
                raise FileNotFoundError(errno.ENOENT, _os.strerror(errno.ENOENT), path)
            if _os.path.dirname(p) not in fs.dirs:
                raise FileNotFoundError(errno.ENOENT, _os.strerror(errno.ENOENT), path)
            inode = Inode(fs._nextino)
            fs._nextino += 1
            fs.files[p] = inode
            fs._op("create", p, ino=inode.ino)
        fd = _Fd(next(_FDCOUNT))
        fd.raw = (p, inode)
        return fd

    def fdopen(self, fd, mode="r", *a, **kw):
        raw = getattr(fd, "raw", None)
        if raw is None:
            raise OSError(errno.EBADF, _os.strerror(errno.EBADF))
        if "b" in mode:
            raise VfsUnsupported("binary files")
        p, inode = raw
        # the descriptor is already open: 'w+' here does NOT truncate (as os.fdopen)
        f = VFile(self._fs, p, inode, mode, fd=fd)
        fd.raw = None
        return f

    def __getattr__(self, name):
        raise VfsUnsupported("os.%s is not shimmed by mc.vfs" % name)


class VFS:
    """The in-memory file system.  `ocfn`, `open` and `os` are the seams."""

    def __init__(self, snapshots=False):
        self.dirs = {"/", ROOT}
        self.files = {}            # normalised path -> Inode
        self._fds = {}             # fd -> open VFile
        self._nextino = 1
        self.journal = []          # (kind, args..., info-dict)
        self.rename_calls = 0      # os.rename calls so far
        self.fail_renames = set()  # ordinal numbers of the os.rename calls that raise EACCES (fault injection)
        self.snapshots = snapshots
        self.snaps = []            # snaps[i] = state after journal[i] (only real operations)
        self.snap_at = []          # journal index of each snapshot
        self.os = _OsShim(self)
        if snapshots:
            self.snaps.append(self.snapshot())
            self.snap_at.append(-1)

    @classmethod
    def from_image(cls, dirs, files, snapshots=False):
        """A file system as found after a crash: `files` {path: content}, all of it durable."""
        fs = cls(snapshots=False)
        fs.dirs = set(dirs) | {"/", ROOT}
        for p in sorted(files):
            inode = Inode(fs._nextino)
            fs._nextino += 1
            inode.durable = files[p]
            fs.files[p] = inode
        if snapshots:
            fs.snapshots = True
            fs.snaps.append(fs.snapshot())
            fs.snap_at.append(-1)
        return fs

    # ---- internals
    def _norm(self, path):
        if not isinstance(path, str):
            raise TypeError("path must be str, got %r" % (path,))
        if not _os.path.isabs(path):
            path = _os.path.join(ROOT, path)
        return _os.path.normpath(path)

    def _newfd(self, f, fd=None):
        if fd is None:
            fd = _Fd(next(_FDCOUNT))
        fd.vfile = f
        self._fds[fd] = f
        return fd

    def _op(self, kind, *args, **info):
        self.journal.append((kind, args, info))
        if self.snapshots:
            self.snaps.append(self.snapshot())
            self.snap_at.append(len(self.journal) - 1)

    def mark(self, label, **info):
        """Harness marker in the journal (not an operation, not a crash point)."""
        self.journal.append(("mark", (label,), info))

    # ---- the seams
    def ocfn(self, filename, openMode="r+", binary=False):
        """Same contract as ioflo.aid.filing.ocfn: atomically create (then mode 'w+')
        or open an existing file with openMode."""
        if binary or "b" in openMode:
            raise VfsUnsupported("binary files")
        p = self._norm(filename)
        if p in self.dirs:
            raise IsADirectoryError(errno.EISDIR, _os.strerror(errno.EISDIR), filename)
        if p not in self.files:
            if _os.path.dirname(p) not in self.dirs:
                raise FileNotFoundError(errno.ENOENT, _os.strerror(errno.ENOENT), filename)
            inode = Inode(self._nextino)
            self._nextino += 1
            self.files[p] = inode
            self._op("create", p, ino=inode.ino)
            return VFile(self, p, inode, "w+")
        return self.open(p, openMode)

    def open(self, filename, mode="r"):
        if "b" in mode:
            raise VfsUnsupported("binary files")
        p = self._norm(filename)
        if p in self.dirs:
            raise IsADirectoryError(errno.EISDIR, _os.strerror(errno.EISDIR), filename)
        inode = self.files.get(p)
        if inode is None:
            if mode.startswith("r"):
                raise FileNotFoundError(errno.ENOENT, _os.strerror(errno.ENOENT), filename)
            if _os.path.dirname(p) not in self.dirs:
                raise FileNotFoundError(errno.ENOENT, _os.strerror(errno.ENOENT), filename)
            inode = Inode(self._nextino)
            self._nextino += 1
            self.files[p] = inode
            self._op("create", p, ino=inode.ino)
        elif mode.startswith("w"):
            lost = len(inode.os_view())
            inode.durable = ""
            inode.cache = []
            self._op("truncate", p, 0, ino=inode.ino, lost=lost)
        f = VFile(self, p, inode, mode)
        self._op("open", p, mode, ino=inode.ino)
        return f

    # ---- observation
    def logical(self, path):
        """Everything written so far to the file at path (durable + cache + buffers of open
        handles, in handle-open order); None when the path does not exist."""
        p = self._norm(path)
        inode = self.files.get(p)
        if inode is None:
            return None
        return inode.durable + "".join(self._unsynced(inode))

    def on_disk(self, path):
        """What another process would read now (no user-space buffers)."""
        p = self._norm(path)
        inode = self.files.get(p)
        return None if inode is None else inode.os_view()

    def _unsynced(self, inode):
        chunks = list(inode.cache)
        for fd in sorted(self._fds):
            f = self._fds[fd]
            if f._inode is inode:
                chunks.extend(f._buf)
        return chunks

    def snapshot(self):
        """{path: (ino, durable, (unsynced chunks...))} plus the directory set."""
        return dict(files={p: (i.ino, i.durable, tuple(self._unsynced(i)))
                           for p, i in self.files.items()},
                    dirs=frozenset(self.dirs))

    def listing(self):
        return sorted(self.files)


def cuts(chunks, midwrite="all"):
    """All admissible surviving prefixes of a list of unsynced chunks, shortest first:
    every write boundary and, inside each write, every byte offset (midwrite='all') or
    the middle offset only (midwrite='one') or none (midwrite='none')."""
    out = [""]
    acc = ""
    for c in chunks:
        n = len(c)
        if midwrite == "all":
            mids = range(1, n)
        elif midwrite == "one":
            mids = [n // 2] if n > 1 else []
        else:
            mids = []
        for k in mids:
            out.append(acc + c[:k])
        acc += c
        out.append(acc)
    seen = set()
    res = []
    for s in out:
        if s not in seen:
            seen.add(s)
            res.append(s)
    return res


def crash_images(snap, midwrite="all"):
    """Every admissible post-crash content of the file system state `snap`
    (a VFS.snapshot()): yields (pattern, {path: content}) where pattern is a tuple of
    (path, kept_unsynced_bytes, total_unsynced_bytes) for files that had unsynced data.
    Files without unsynced data have exactly one image.  Order: least surviving first."""
    paths = sorted(snap["files"])
    fixed = {}
    var = []
    for p in paths:
        ino, durable, chunks = snap["files"][p]
        if chunks:
            total = sum(len(c) for c in chunks)
            var.append((p, durable, cuts(chunks, midwrite), total))
        else:
            fixed[p] = durable
    if not var:
        yield (), dict(fixed)
        return
    for combo in itertools.product(*[v[2] for v in var]):
        img = dict(fixed)
        pat = []
        for (p, durable, _c, total), keep in zip(var, combo):
            img[p] = durable + keep
            pat.append((p, len(keep), total))
        yield tuple(pat), img


# --------------------------------------------------------------------------- time seam

class FakeDatetimeModule:
    """Stand-in for the `datetime` module global of ioflo.base.logging:
    datetime.datetime.now() is a fixed instant (Logger.createPath's timestamped directory)."""

    def __init__(self, fixed=None):
        fixed = fixed or _datetime.datetime(2001, 2, 3, 4, 5, 6, 7000)
        self.calls = 0
        outer = self

        class datetime(_datetime.datetime):
            @classmethod
            def now(cls, tz=None):
                outer.calls += 1
                return fixed

        self.datetime = datetime
        self.timedelta = _datetime.timedelta
        self.date = _datetime.date

    def __getattr__(self, name):
        raise VfsUnsupported("datetime.%s is not shimmed by mc.vfs" % name)


def _patch(fs, fixed_now=None, real_ocfn=True):
    """Point ioflo.base.logging (and the ocfn it uses) at the in-memory file system.
    real_ocfn=True: ioflo.aid.filing.ocfn itself keeps running, over shimmed
    filing.os.open / filing.os.fdopen / filing.open; False: logging.ocfn = fs.ocfn."""
    from ioflo.base import logging as iologging
    from ioflo.aid import filing
    missing = object()
    saved = (iologging.ocfn, iologging.os, iologging.datetime, filing.os,
             filing.__dict__.get("open", missing))
    iologging.os = fs.os
    iologging.datetime = FakeDatetimeModule(fixed_now)
    if real_ocfn:
        iologging.ocfn = filing.ocfn
        filing.os = fs.os
        filing.open = fs.open
    else:
        iologging.ocfn = fs.ocfn

    def undo():
        iologging.ocfn, iologging.os, iologging.datetime, filing.os = saved[:4]
        if saved[4] is missing:
            filing.__dict__.pop("open", None)
        else:
            filing.open = saved[4]
    return undo


@contextlib.contextmanager
def installed(fs, fixed_now=None, real_ocfn=True):
    """Context manager form (core.use_repo() first)."""
    undo = _patch(fs, fixed_now, real_ocfn)
    try:
        yield fs
    finally:
        undo()


def install(fs, fixed_now=None, real_ocfn=True):
    """Non-context variant for long-lived workers; returns an undo function."""
    return _patch(fs, fixed_now, real_ocfn)


# --------------------------------------------------------------------------- logger world

class LogWorld:
    """A real House/Store/Logger/Log/Share set on an in-memory file system, driven the way
    the Skedder drives a tasker: runner.send(START), runner.send(RUN)..., runner.send(STOP),
    at most one send per tick, store time moved by the driver only.

    The caller must hold `installed(fs)` (or install()) for the lifetime of the object."""

    PREFIX = ROOT + "/log"

    def __init__(self, fs, rule, fields=None, share_init=None, tick=0.125, logger_kw=None,
                 base="log", tag="x", share_name="mc.x", more_logs=(), more_loggees=(), unstamped=(), no_loggee=False):
        """more_logs: further logs in the same logger, (base, rule, fields) on the same share or
        (base, rule, fields, share_name, share_init) on another share (created on demand).
        more_loggees: further loggees of the FIRST log, (tag, share_name, fields, share_init).
        unstamped: share names whose initial fields are set with Share.change() (stamp stays None).
        no_loggee: the first log gets no loggee at all (FloScript `log beat on always`)."""
        from ioflo.base import housing, logging as iologging, globaling
        from ioflo.aid.odicting import odict
        housing.House.Clear()
        housing.ClearRegistries()
        self.fs = fs
        self.g = globaling
        self.tick = tick
        self.house = housing.House(name="H")
        self.store = self.house.store
        self.house.assignRegistries()
        kw = dict(name="L", store=self.store, schedule=globaling.ACTIVE, prefix=self.PREFIX)
        kw.update(logger_kw or {})
        self.logger = iologging.Logger(**kw)
        self.house.taskers.append(self.logger)
        self.house.mids.append(self.logger)
        self.house.orderTaskables()
        self.store.changeStamp(0.0)
        self.share = self.store.create(share_name)
        if share_init:
            (self.share.change if share_name in unstamped else self.share.create)(odict(share_init))
        self.log = iologging.Log(name=base, store=self.store, kind="text", rule=rule)
        if not no_loggee:
            self.log.addLoggee(tag=tag, loggee=share_name, fields=list(fields) if fields else None)
        self.shares = {share_name: self.share}
        for tag2, sname2, fields2, init2 in more_loggees:
            if sname2 not in self.shares:
                self.shares[sname2] = self.store.create(sname2)
                if init2:
                    o2 = self.shares[sname2]
                    (o2.change if sname2 in unstamped else o2.create)(odict(init2))
            self.log.addLoggee(tag=tag2, loggee=sname2, fields=list(fields2) if fields2 else None)
        self.logger.addLog(self.log)
        self.logs = [self.log]
        for spec in more_logs:
            base2, rule2, fields2 = spec[:3]
            sname = spec[3] if len(spec) > 3 else share_name
            if sname not in self.shares:
                self.shares[sname] = self.store.create(sname)
                if len(spec) > 4 and spec[4]:
                    self.shares[sname].create(odict(spec[4]))
            log2 = iologging.Log(name=base2, store=self.store, kind="text", rule=rule2)
            log2.addLoggee(tag=tag, loggee=sname, fields=list(fields2) if fields2 else None)
            self.logger.addLog(log2)
            self.logs.append(log2)
        self.logger.resolve()
        self.sent = []

    def send(self, control):
        self.sent.append(control)
        return self.logger.runner.send(control)

    def start(self):
        return self.send(self.g.START)

    def run(self):
        return self.send(self.g.RUN)

    def stop(self):
        return self.send(self.g.STOP)

    def advance(self, n=1):
        self.store.changeStamp(self.store.stamp + n * self.tick)

    def paths(self, log=None):
        """[main, copy 01, copy 02, ...] as documented: root + two-digit index + ext."""
        main = (log or self.log).path
        root, ext = _os.path.splitext(main)
        return [main] + ["%s%02d%s" % (root, k, ext) for k in range(1, self.logger.keep + 1)]


# --------------------------------------------------------------------------- self-test

def selftest():
    """Tiny self-test of the double itself (no ioflo needed): python -m mc.vfs"""
    fs = VFS(snapshots=True)
    fs.os.makedirs("/vfs/d/e")
    assert fs.os.path.exists("/vfs/d/e") and fs.os.path.isdir("/vfs/d")
    f = fs.ocfn("/vfs/d/e/a.txt", "a+")
    assert f.mode == "w+" and fs.os.path.getsize("/vfs/d/e/a.txt") == 0
    f.write("h1\n")
    f.write("r1\n")
    assert fs.os.path.getsize("/vfs/d/e/a.txt") == 0          # still in the handle buffer
    assert fs.logical("/vfs/d/e/a.txt") == "h1\nr1\n" and fs.on_disk("/vfs/d/e/a.txt") == ""
    f.flush()
    assert fs.os.path.getsize("/vfs/d/e/a.txt") == 6
    fs.os.fsync(f.fileno())
    f.write("r2\n")
    snap = fs.snapshot()
    imgs = [img["/vfs/d/e/a.txt"] for _p, img in crash_images(snap)]
    assert imgs == ["h1\nr1\n", "h1\nr1\nr", "h1\nr1\nr2", "h1\nr1\nr2\n"], imgs
    f.close()
    assert f.closed
    try:
        f.write("x")
        raise AssertionError("write on closed file")
    except ValueError:
        pass
    g = fs.ocfn("/vfs/d/e/a.txt", "a+")
    assert g.mode == "a+"
    g.seek(0)
    assert g.readline() == "h1\n" and g.readlines() == ["r1\n", "r2\n"]
    g.write("r3\n")
    g.close()
    fs.os.rename("/vfs/d/e/a.txt", "/vfs/d/e/a01.txt")
    assert not fs.os.path.exists("/vfs/d/e/a.txt")
    try:
        fs.os.path.getsize("/vfs/d/e/a.txt")
        raise AssertionError("getsize of missing file")
    except OSError:
        pass
    h = fs.ocfn("/vfs/d/e/a.txt", "w+")
    h.write("h1\n")
    h.close()
    # closed without fsync: r2, r3 (7 cuts) and the new header (4 cuts) are unsynced
    n = sum(1 for _ in crash_images(fs.snapshot()))
    assert n == 28, n
    k = fs.ocfn("/vfs/d/e/a.txt", "w+")           # existing: truncated, durably
    assert fs.logical("/vfs/d/e/a.txt") == ""
    k.close()
    try:
        fs.ocfn("/vfs/nodir/x.txt", "a+")
        raise AssertionError("create in missing directory")
    except OSError as ex:
        assert ex.errno == errno.ENOENT
    assert fs.os.listdir("/vfs/d/e") == ["a.txt", "a01.txt"]
    try:
        fs.os.open("/vfs/d/e/a.txt", fs.os.O_EXCL | fs.os.O_CREAT | fs.os.O_RDWR, 436)
        raise AssertionError("O_EXCL on existing file")
    except OSError as ex:
        assert ex.errno == errno.EEXIST
    fd = fs.os.open("/vfs/d/e/b.txt", fs.os.O_EXCL | fs.os.O_CREAT | fs.os.O_RDWR, 436)
    b = fs.os.fdopen(fd, "w+")
    b.write("x\n")
    b.flush()
    fs.os.fsync(b.fileno())
    assert fs.snapshot()["files"]["/vfs/d/e/b.txt"][1:] == ("x\n", ())
    b.close()
    fs.os.remove("/vfs/d/e/b.txt")
    assert len(fs.snaps) == 1 + sum(1 for j in fs.journal if j[0] != "mark")
    assert cuts(["ab", "c"], "one") == ["", "a", "ab", "abc"]
    assert cuts(["ab", "c"], "none") == ["", "ab", "abc"]
    try:
        fs.os.chmod
        raise AssertionError("unshimmed attribute")
    except VfsUnsupported:
        pass
    return "vfs selftest ok: %d journal entries, %d snapshots" % (len(fs.journal), len(fs.snaps))


if __name__ == "__main__":
    print(selftest())
