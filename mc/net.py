"""
Engine C ("net"): socket doubles for ioflo's non-blocking I/O stack.  DESIGN.md section 2 engine C,
section 1.2 (seams) and Appendix C (double contract).  Usage notes for check authors:
/verif/notes/net.md.

Nothing here imports ioflo.  The doubles stand in for the `socket` module global of
`ioflo.aio.tcp.clienting`, `ioflo.aio.tcp.serving`, `ioflo.aio.udp.udping` and for the `context=`
argument of `ClientTls` / `ServerTls` / `IncomerTls`.

    from mc import core, net
    core.use_repo()
    from ioflo.aio.tcp import clienting, serving

    fsm = net.FakeSocketModule()            # once per worker process
    fsm.install()                           # patches <module>.socket; fsm.uninstall() restores

    def run(ch):                            # one execution of a stateless DFS (core.dfs)
        fn = net.FakeNet(chooser=ch)        # every environment answer is drawn from `ch`
        fsm.net = fn                        # socket.socket() now returns FakeSockets of `fn`
        clock = net.clock()                 # manual store clock: clock.stamp, clock.advance(dt)
        srv = serving.Server(ha=("127.0.0.1", 7000), store=clock); srv.reopen()
        cli = clienting.Client(ha=("127.0.0.1", 7000), store=clock); cli.reopen()
        cli.cs.menu = net.Menu(send_partial=True, send_block=True)   # what may go wrong, per socket
        cli.serviceConnect(); srv.serviceConnects()
        cli.tx(b"abc"); cli.serviceTxes()
        ...
        fn.log            # every answer given: (socket name, op, answer)
        fn.answers()      # the answers at real choice points; ScriptPolicy(fn.answers()) replays them

Model
-----
* `FakeNet` owns listeners (by bound address), datagram sockets (by bound address), every socket
  ever created (`.sockets`, so "a new socket was constructed" is observable), an ephemeral port
  counter, the answer log and the *policy*.
* A connected `FakeSocket` has `.peer`, `.inbox` (bytes that arrived and were not yet received),
  `.sent` (every byte its send() accepted, in order) and `.recvd` (every byte its recv() returned).
  Bytes accepted by send() are appended to the peer's inbox at once; *when* the receiver sees them
  is a recv() answer (would-block although bytes are there == "not arrived yet").
* Every answer ioflo branches on is one decision: the socket builds the list of candidate answers
  (candidate 0 = the natural "everything succeeds fully" answer; the rest are switched on by the
  socket's `Menu`) and asks `net.policy.decide(sock, op, cands)`.  `ChooserPolicy` (default) maps a
  decision with more than one candidate to `chooser.choose(n, label, default=0, cost=1)`, so a
  deviation-bounded DFS counts one deviation per non-default answer.  `ScriptPolicy` answers from a
  fixed list (replay).  `sock.force(op, answer, ...)` queues answers for one socket that bypass
  menu and policy (used for complete errno grids).
* Answers are plain tuples:  ("n", k) k bytes accepted / returned · ("block",) EWOULDBLOCK, or
  SSLWantRead/Write on a TLS socket · ("eof",) recv returns b"" · ("err", errno) raise
  OSError(errno) · ("rc", code) connect_ex result · ("conn", i) accept the i-th pending connection
  · ("ok",) handshake done · ("ssl", kind) raise an ssl error, kind in SSL_KINDS.
* Errors are real `OSError` subclasses built by `OSError(errno, strerror)` resp. real
  `ssl.SSLWantReadError/SSLWantWriteError/SSLEOFError/SSLZeroReturnError/SSLSyscallError/SSLError`
  instances with `args[0] == errno`.

The doubles answer like Linux sockets for the branches ioflo takes; they do not model kernel
buffers, Nagle, urgent data, or a TLS record layer (a FakeSslSocket moves plaintext).
"""
from __future__ import annotations

import collections
import errno as _errno
import os as _os
import socket as _socket
import ssl as _ssl
import sys as _sys

from mc import core

# ----------------------------------------------------------------------------- answers

BLOCK = ("block",)
EOF = ("eof",)
OK = ("ok",)


def N(k):
    return ("n", k)


def ERR(e):
    return ("err", e)


def RC(code):
    return ("rc", code)


def SSL(kind):
    return ("ssl", kind)


SSL_KINDS = {
    # kind: (exception class, ssl error number, message)
    "want_read": (_ssl.SSLWantReadError, _ssl.SSL_ERROR_WANT_READ, "The operation did not complete (read)"),
    "want_write": (_ssl.SSLWantWriteError, _ssl.SSL_ERROR_WANT_WRITE, "The operation did not complete (write)"),
    "eof": (_ssl.SSLEOFError, _ssl.SSL_ERROR_EOF, "EOF occurred in violation of protocol"),
    "zero_return": (_ssl.SSLZeroReturnError, _ssl.SSL_ERROR_ZERO_RETURN, "TLS/SSL connection has been closed (EOF)"),
    "syscall": (_ssl.SSLSyscallError, _ssl.SSL_ERROR_SYSCALL, "Some I/O error occurred"),
    "error": (_ssl.SSLError, _ssl.SSL_ERROR_SSL, "[SSL] internal error"),
    "cert": (_ssl.SSLCertVerificationError, _ssl.SSL_ERROR_SSL, "[SSL: CERTIFICATE_VERIFY_FAILED] certificate verify failed"),
}


def oserror(e):
    """A real OSError (the right subclass) with args[0] == errno == e."""
    return OSError(e, _os.strerror(e))


def sslerror(kind):
    cls, num, msg = SSL_KINDS[kind]
    return cls(int(num), msg)


def show(ans):
    """Short printable form of an answer tuple."""
    if ans[0] == "err":
        return "err:" + _errno.errorcode.get(ans[1], str(ans[1]))
    if ans[0] == "rc":
        return "rc:" + (_errno.errorcode.get(ans[1], str(ans[1])) if ans[1] else "0")
    if len(ans) == 1:
        return ans[0]
    return "%s:%s" % (ans[0], ans[1])


# ----------------------------------------------------------------------------- menu / policy

class Menu:
    """Which non-default answers a socket may give.  Everything off == ideal socket."""
    __slots__ = ("send_partial", "send_min", "send_block", "send_errnos", "recv_split", "recv_block",
                 "recv_errnos", "recv_idle_errnos", "connect", "accept_block", "accept_errnos",
                 "handshake", "send_ssl", "recv_ssl", "shutdown_errnos")

    def __init__(self, **kw):
        self.send_partial = False    # send() may accept any count send_min..len-1
        self.send_min = 0            # smallest partial count offered (1: partial but never zero)
        self.send_block = False      # send() may raise would-block
        self.send_errnos = ()        # send() may raise OSError(e) for e in ...
        self.recv_split = False      # recv() may return any shorter non-empty prefix
        self.recv_block = False      # recv() may raise would-block although bytes are waiting
        self.recv_errnos = ()        # recv() may raise OSError(e) when bytes are waiting
        self.recv_idle_errnos = ()   # recv() may raise OSError(e) when nothing is waiting
        self.connect = ()            # extra connect_ex() results besides the natural one
        self.accept_block = False    # accept() may raise would-block although a connection is pending
        self.accept_errnos = ()
        self.handshake = ()          # extra do_handshake() answers: ssl kinds or ("err", e) tuples
        self.send_ssl = ()           # TLS send() may raise these ssl kinds
        self.recv_ssl = ()           # TLS recv() may raise these ssl kinds
        self.shutdown_errnos = ()    # shutdown() may raise OSError(e) (ENOTCONN: transport already gone, ...)
        for k, v in kw.items():
            setattr(self, k, v)      # unknown names raise AttributeError (slots)

    def copy(self, **kw):
        m = Menu(**{k: getattr(self, k) for k in self.__slots__})
        for k, v in kw.items():
            setattr(m, k, v)
        return m


class ChooserPolicy:
    """Default policy: ask a core.Chooser; candidate 0 is the default, any other costs 1."""

    def __init__(self, chooser=None, cost=1):
        self.ch = chooser if chooser is not None else core.Chooser()
        self.cost = cost

    def decide(self, sock, op, cands):
        if len(cands) == 1:
            return 0
        return self.ch.choose(len(cands), "%s.%s" % (sock.name, op), 0, self.cost)


class ScriptPolicy:
    """Replay: answers at choice points (decisions with > 1 candidates) are taken from
    `answers` in order (an answer tuple, an index, or None = default); default afterwards.
    strict=True: an answer that is not among the candidates is a BrokenCheck."""

    def __init__(self, answers=(), strict=True):
        self.answers = collections.deque(answers)
        self.strict = strict

    def decide(self, sock, op, cands):
        if len(cands) == 1 or not self.answers:
            return 0
        a = self.answers.popleft()
        if a is None:
            return 0
        if isinstance(a, int):
            if 0 <= a < len(cands):
                return a
        else:
            a = tuple(a)
            if a in cands:
                return cands.index(a)
        if self.strict:
            raise core.BrokenCheck("script answer %r not possible at %s.%s (candidates %r)"
                                   % (a, sock.name, op, cands))
        return 0


# ----------------------------------------------------------------------------- the net

LOOP = "127.0.0.1"
ANY = "0.0.0.0"


def _norm(addr):
    host, port = addr[0], addr[1]
    if host == "":
        host = ANY
    return (host, port)


class FakeNet:
    """Registry of listeners / datagram sockets, pipes, log and policy."""

    def __init__(self, chooser=None, policy=None, menu=None, first_port=49152):
        self.policy = policy if policy is not None else ChooserPolicy(chooser)
        self.menu = menu if menu is not None else Menu()   # inherited by new sockets
        self.listeners = {}      # (host, port) -> listening FakeSocket
        self.dgrams = {}         # (host, port) -> bound datagram FakeSocket
        self.sockets = []        # every FakeSocket ever created, in creation order
        self.next_port = first_port
        self.log = []            # (socket name, op, answer tuple)   every answer
        self.points = []         # indexes into log of real choice points (> 1 candidate)

    # -- construction
    def socket(self, family=_socket.AF_INET, type=_socket.SOCK_STREAM, proto=0, name=None):
        s = FakeSocket(self, family, type, proto, name)
        return s

    def pair(self, a_addr=None, b_addr=None):
        """Two connected stream sockets (no listener involved)."""
        a, b = self.socket(), self.socket()
        a.laddr = a_addr or self.ephemeral()
        b.laddr = b_addr or self.ephemeral()
        a._establish(b)
        return a, b

    def ephemeral(self, host=LOOP):
        p = self.next_port
        self.next_port += 1
        return (host, p)

    def listener_at(self, addr):
        addr = _norm(addr)
        ls = self.listeners.get(addr)
        if ls is None:
            ls = self.listeners.get((ANY, addr[1]))
        return ls

    def listen(self, addr, name=None):
        """Convenience: a raw listening FakeSocket (a server the harness plays itself)."""
        s = self.socket(name=name)
        s.bind(addr)
        s.listen(5)
        return s

    # -- decisions
    def decide(self, sock, op, cands):
        q = sock.forced.get(op)
        if q:
            ans = tuple(q.popleft())
            self.log.append((sock.name, op, ans))
            return ans
        if op in sock.sticky:
            ans = tuple(sock.sticky[op])
            self.log.append((sock.name, op, ans))
            return ans
        i = self.policy.decide(sock, op, cands)
        ans = cands[i]
        if len(cands) > 1:
            self.points.append(len(self.log))
        self.log.append((sock.name, op, ans))
        return ans

    def note(self, sock, op, what):
        self.log.append((sock.name, op, what))

    def answers(self):
        """Answers given at real choice points, in order: feed to ScriptPolicy to replay."""
        return [self.log[i][2] for i in self.points]

    def trace(self, last=None):
        rows = self.log if last is None else self.log[-last:]
        return ["%s.%s -> %s" % (n, op, show(a) if isinstance(a, tuple) else a) for n, op, a in rows]

    def open_sockets(self):
        return [s for s in self.sockets if not s.closed]


class FakeSocket:
    """Non-blocking socket double.  See module docstring for the answer model."""

    def __init__(self, net, family=_socket.AF_INET, type=_socket.SOCK_STREAM, proto=0, name=None):
        self.net = net
        self.family = family
        self.type = type
        self.proto = proto
        self.ident = len(net.sockets)
        self.name = name or "s%d" % self.ident
        net.sockets.append(self)
        self.menu = net.menu
        self.forced = {}             # op -> deque of answers that bypass menu and policy
        self.sticky = {}             # op -> answer given on EVERY call from now on (e.g. shutdown after a peer reset)
        self.laddr = None            # bound / assigned local address
        self.raddr = None            # peer address once connected (or connecting)
        self.state = "new"           # new | listening | connecting | connected | refused
        self.closed = False
        self.blocking = True
        self.opts = {}
        self.calls = collections.Counter()   # recorded: shutdown/close/setsockopt...
        self.shut_rd = False
        self.shut_wr = False
        self.peer = None
        self.peer_closed = False     # peer sent FIN (close or shutdown(WR)): EOF after inbox drains
        self.inbox = bytearray()
        self.sent = bytearray()      # every byte accepted by send()
        self.recvd = bytearray()     # every byte returned by recv()
        self.lost = bytearray()      # bytes accepted after the peer had gone
        self.backlog = collections.deque()   # listening: pending server-side sockets
        self.dinbox = collections.deque()    # datagram: (data, source)
        self.dsent = []                      # datagram: (data, dest)

    def __repr__(self):
        return "<FakeSocket %s %s l=%s r=%s%s>" % (self.name, self.state, self.laddr, self.raddr,
                                                   " closed" if self.closed else "")

    # -- harness side helpers
    def force(self, op, *answers):
        """Queue answers for `op` (send, recv, connect_ex, accept, do_handshake, sendto, recvfrom)
        that are given next, regardless of menu and policy."""
        self.forced.setdefault(op, collections.deque()).extend(answers)
        return self

    def feed(self, data):
        """Harness injects bytes as if the peer had sent them."""
        self.inbox.extend(data)

    def feed_eof(self):
        self.peer_closed = True

    def stick(self, op, answer):
        """Every later `op` on this socket gets `answer` (bypasses menu and policy), e.g.
        sock.stick("shutdown", net.ERR(errno.ENOTCONN)) after the peer reset the connection."""
        self.sticky[op] = tuple(answer)
        return self

    def _check_open(self):
        if self.closed:
            raise oserror(_errno.EBADF)

    # -- plumbing
    def fileno(self):
        return -1 if self.closed else 1000 + self.ident

    def setblocking(self, flag):
        self._check_open()
        self.blocking = bool(flag)
        self.calls["setblocking"] += 1

    def settimeout(self, value):
        self._check_open()
        self.blocking = value is None

    def gettimeout(self):
        return None if self.blocking else 0.0

    def getblocking(self):
        return self.blocking

    def setsockopt(self, level, opt, value, *more):
        self._check_open()
        if level == _socket.SOL_SOCKET and opt in (_socket.SO_SNDBUF, _socket.SO_RCVBUF) \
                and _sys.platform.startswith("linux"):
            value = 2 * value            # Linux doubles the requested size
        self.opts[(level, opt)] = value
        self.calls["setsockopt"] += 1

    def getsockopt(self, level, opt, *more):
        self._check_open()
        if (level, opt) in self.opts:
            return self.opts[(level, opt)]
        if level == _socket.SOL_SOCKET and opt in (_socket.SO_SNDBUF, _socket.SO_RCVBUF):
            return 212992
        if level == _socket.SOL_SOCKET and opt == _socket.SO_ERROR:
            return 0
        return 0

    def bind(self, addr):
        self._check_open()
        host, port = _norm(addr)
        if port == 0:
            port = self.net.ephemeral()[1]
        addr = (host, port)
        if self.type == _socket.SOCK_DGRAM:
            other = self.net.dgrams.get(addr)
            if other is not None and other is not self and not other.closed:
                raise oserror(_errno.EADDRINUSE)
            self.net.dgrams[addr] = self
        else:
            other = self.net.listeners.get(addr)
            if other is not None and other is not self and not other.closed:
                raise oserror(_errno.EADDRINUSE)
        self.laddr = addr
        self.calls["bind"] += 1

    def listen(self, backlog=5):
        self._check_open()
        if self.laddr is None:
            self.laddr = self.net.ephemeral(ANY)
        self.net.listeners[self.laddr] = self
        self.state = "listening"

    def getsockname(self):
        self._check_open()
        if self.laddr is None:
            return (ANY, 0)
        return self.laddr

    def getpeername(self):
        self._check_open()
        if "getpeername" in self.sticky:      # e.g. ERR(ENOTCONN) after a reset, or ("addr", (host, port))
            ans = self.sticky["getpeername"]
            self.net.log.append((self.name, "getpeername", ans))
            if ans[0] == "addr":
                return tuple(ans[1])
            self._raise(ans, "getpeername")
        if self.state != "connected":
            raise oserror(_errno.ENOTCONN)
        return self.raddr

    # -- connecting
    def connect_ex(self, addr):
        self._check_open()
        self.calls["connect_ex"] += 1
        if self.state == "connected":
            ans = self.net.decide(self, "connect_ex", [RC(_errno.EISCONN)])
            return ans[1]
        addr = (addr[0], addr[1])
        ls = self.net.listener_at(addr)
        pending = _errno.EALREADY if self.state == "connecting" else _errno.EINPROGRESS
        if ls is not None and not ls.closed:
            cands = [RC(0)]
        else:
            cands = [RC(_errno.ECONNREFUSED)]
        for c in self.menu.connect:
            if c == _errno.EINPROGRESS:
                c = pending
            if RC(c) not in cands and not (c == 0 and ls is None):
                cands.append(RC(c))
        ans = self.net.decide(self, "connect_ex", cands)
        if ans[0] == "err":
            raise oserror(ans[1])
        rc = ans[1]
        if rc == 0 or rc == _errno.EISCONN:
            if ls is None or ls.closed:      # forced success without a listener: dangling pipe
                srv = self.net.socket(name=self.name + "'")
                srv.laddr = addr
            else:
                srv = self.net.socket(name="%s<%s" % (ls.name, self.name))
                srv.laddr = (addr[0] if ls.laddr[0] == ANY else ls.laddr[0], ls.laddr[1])
                srv.menu = ls.menu
                ls.backlog.append(srv)
            if self.laddr is None:
                self.laddr = self.net.ephemeral()
            self._establish(srv)
        elif rc in (_errno.EINPROGRESS, _errno.EALREADY):
            self.state = "connecting"
            self.raddr = addr
        else:
            self.state = "refused"
        return rc

    def connect(self, addr):
        rc = self.connect_ex(addr)
        if rc not in (0, _errno.EISCONN):
            raise oserror(rc)

    def _establish(self, other):
        self.peer, other.peer = other, self
        self.raddr, other.raddr = other.laddr, self.laddr
        self.state = other.state = "connected"

    def accept(self):
        self._check_open()
        self.calls["accept"] += 1
        if self.state != "listening":
            raise oserror(_errno.EINVAL)
        if not self.backlog:
            cands = [BLOCK]
        else:
            cands = [("conn", 0)]
            if self.menu.accept_block:
                cands.append(BLOCK)
        cands += [ERR(e) for e in self.menu.accept_errnos]
        ans = self.net.decide(self, "accept", cands)
        if ans[0] == "block":
            raise oserror(_errno.EWOULDBLOCK)
        if ans[0] == "err":
            raise oserror(ans[1])
        srv = self.backlog.popleft()
        return srv, srv.raddr

    # -- stream i/o
    def _block(self, op):
        return oserror(_errno.EWOULDBLOCK)

    def _raise(self, ans, op):
        if ans[0] == "block":
            raise self._block(op)
        if ans[0] == "err":
            raise oserror(ans[1])
        if ans[0] == "ssl":
            raise sslerror(ans[1])
        raise core.BrokenCheck("answer %r makes no sense for %s" % (ans, op))

    def _send_cands(self, data):
        n = len(data)
        m = self.menu
        cands = [N(n)]
        if m.send_partial:
            cands += [N(k) for k in range(n - 1, m.send_min - 1, -1)]
        if m.send_block:
            cands.append(BLOCK)
        cands += [ERR(e) for e in m.send_errnos]
        return cands

    def send(self, data, flags=0):
        self._check_open()
        self.calls["send"] += 1
        if self.state != "connected":
            raise oserror(_errno.ENOTCONN if self.state != "listening" else _errno.EPIPE)
        if self.shut_wr:
            raise oserror(_errno.EPIPE)
        data = bytes(data)
        ans = self.net.decide(self, "send", self._send_cands(data))
        if ans[0] != "n":
            self._raise(ans, "send")
        k = ans[1]
        if not (0 <= k <= len(data)):
            raise core.BrokenCheck("send answer %r for %d bytes" % (ans, len(data)))
        chunk = data[:k]
        self.sent.extend(chunk)
        p = self.peer
        if p is None or p.closed or p.shut_rd:
            self.lost.extend(chunk)
        else:
            p.inbox.extend(chunk)
        return k

    def sendall(self, data, flags=0):
        raise core.BrokenCheck("sendall() on a non-blocking double")

    def _recv_cands(self, n):
        m = self.menu
        avail = min(n, len(self.inbox))
        if avail:
            cands = [N(avail)]
            if m.recv_split:
                cands += [N(k) for k in range(avail - 1, 0, -1)]
            if m.recv_block:
                cands.append(BLOCK)
            cands += [ERR(e) for e in m.recv_errnos]
        else:
            if self.peer_closed or self.shut_rd:
                cands = [EOF]
            else:
                cands = [BLOCK]
            cands += [ERR(e) for e in m.recv_idle_errnos]
        return cands

    def recv(self, n, flags=0):
        self._check_open()
        self.calls["recv"] += 1
        if self.state != "connected":
            raise oserror(_errno.ENOTCONN)
        ans = self.net.decide(self, "recv", self._recv_cands(n))
        if ans[0] == "eof":
            return b""
        if ans[0] != "n":
            self._raise(ans, "recv")
        k = ans[1]
        if not (0 < k <= min(n, len(self.inbox))):
            raise core.BrokenCheck("recv answer %r with %d bytes waiting" % (ans, len(self.inbox)))
        chunk = bytes(self.inbox[:k])
        del self.inbox[:k]
        self.recvd.extend(chunk)
        return chunk

    # -- datagrams
    def sendto(self, data, addr):
        self._check_open()
        self.calls["sendto"] += 1
        data = bytes(data)
        m = self.menu
        cands = [N(len(data))]
        if m.send_block:
            cands.append(BLOCK)
        cands += [ERR(e) for e in m.send_errnos]
        ans = self.net.decide(self, "sendto", cands)
        if ans[0] != "n":
            self._raise(ans, "sendto")
        if self.laddr is None:
            self.laddr = self.net.ephemeral(ANY)
            self.net.dgrams[self.laddr] = self
        addr = _norm(addr)
        self.dsent.append((data[:ans[1]], addr))
        dst = self.net.dgrams.get(addr) or self.net.dgrams.get((ANY, addr[1]))
        if dst is not None and not dst.closed:
            src = self.laddr if self.laddr[0] != ANY else (LOOP, self.laddr[1])
            dst.dinbox.append((data[:ans[1]], src))
        return ans[1]

    def recvfrom(self, n, flags=0):
        self._check_open()
        self.calls["recvfrom"] += 1
        m = self.menu
        if self.dinbox:
            cands = [("dgram", 0)]
            if m.recv_block:
                cands.append(BLOCK)
            cands += [ERR(e) for e in m.recv_errnos]
        else:
            cands = [BLOCK] + [ERR(e) for e in m.recv_idle_errnos]
        ans = self.net.decide(self, "recvfrom", cands)
        if ans[0] != "dgram":
            self._raise(ans, "recvfrom")
        data, src = self.dinbox.popleft()
        return data[:n], src

    # -- teardown
    def shutdown(self, how):
        self._check_open()
        self.calls["shutdown"] += 1
        self.net.note(self, "shutdown", how)
        if self.state != "connected":
            raise oserror(_errno.ENOTCONN)
        ans = self.net.decide(self, "shutdown", [OK] + [ERR(e) for e in self.menu.shutdown_errnos])
        if ans[0] != "ok":
            self._raise(ans, "shutdown")     # nothing is shut down: the transport is already gone / unusable
        if how in (_socket.SHUT_RD, _socket.SHUT_RDWR):
            self.shut_rd = True
        if how in (_socket.SHUT_WR, _socket.SHUT_RDWR):
            self.shut_wr = True
            if self.peer is not None:
                self.peer.peer_closed = True

    def close(self):
        self.calls["close"] += 1
        if self.closed:
            return
        self.net.note(self, "close", None)
        self.closed = True
        if self.state == "listening":
            if self.net.listeners.get(self.laddr) is self:
                del self.net.listeners[self.laddr]
            for srv in self.backlog:      # never accepted: the client sees a close
                srv.close()
            self.backlog.clear()
        if self.type == _socket.SOCK_DGRAM and self.laddr is not None \
                and self.net.dgrams.get(self.laddr) is self:
            del self.net.dgrams[self.laddr]
        if self.peer is not None:
            self.peer.peer_closed = True

    def detach(self):
        return self.fileno()

    def __enter__(self):
        return self

    def __exit__(self, *a):
        self.close()


# ----------------------------------------------------------------------------- TLS

class FakeSslContext:
    """Stands in for ssl.SSLContext through the `context=` argument of ClientTls / ServerTls /
    IncomerTls (with a ready context those constructors create none and touch no files).
    wrap_socket() returns a FakeSslSocket around the FakeSocket."""

    def __init__(self, net=None, verify_mode=_ssl.CERT_NONE, check_hostname=False):
        self.net = net
        self.verify_mode = verify_mode
        self.check_hostname = check_hostname
        self.options = 0
        self.wrapped = []
        self.loaded = []

    def wrap_socket(self, sock, server_side=False, do_handshake_on_connect=True,
                    suppress_ragged_eofs=True, server_hostname=None, session=None):
        if isinstance(sock, FakeSslSocket):
            raise ValueError("attempt to wrap an already wrapped socket")
        s = FakeSslSocket(sock, self, server_side, server_hostname)
        self.wrapped.append(s)
        if do_handshake_on_connect and sock.state == "connected":
            s.do_handshake()
        return s

    def load_verify_locations(self, cafile=None, capath=None, cadata=None):
        self.loaded.append(("verify", cafile))

    def load_default_certs(self, purpose=None):
        self.loaded.append(("default", purpose))

    def load_cert_chain(self, certfile=None, keyfile=None, password=None):
        self.loaded.append(("chain", certfile, keyfile))

    def set_ciphers(self, spec):
        pass


class FakeSslSocket:
    """TLS double around a FakeSocket: same pipes and answer model, but would-block is raised as
    SSLWantWriteError (send) / SSLWantReadError (recv), extra ssl answers come from
    menu.send_ssl / menu.recv_ssl, and do_handshake() is a decision:
    ("ok",) | ("ssl", "want_read" | "want_write" | "eof" | "error" | ...) | ("err", errno)."""

    def __init__(self, sock, context, server_side, server_hostname):
        self.__dict__["raw"] = sock
        self.context = context
        self.server_side = server_side
        self.server_hostname = server_hostname
        self.handshaked = False
        self.handshakes = 0

    # everything not overridden goes to the raw socket (getsockname, shutdown, close, menu, ...)
    def __getattr__(self, name):
        return getattr(self.__dict__["raw"], name)

    def __setattr__(self, name, value):
        if name in ("menu", "forced"):
            setattr(self.__dict__["raw"], name, value)
        else:
            self.__dict__[name] = value

    def __repr__(self):
        return "<FakeSslSocket %r hs=%s>" % (self.raw, self.handshaked)

    def do_handshake(self, block=False):
        raw = self.raw
        raw._check_open()
        self.handshakes += 1
        if raw.state != "connected":
            raise oserror(_errno.ENOTCONN)
        if self.handshaked:
            return
        cands = [OK]
        for h in raw.menu.handshake:
            cands.append(SSL(h) if isinstance(h, str) else tuple(h))
        ans = raw.net.decide(raw, "do_handshake", cands)
        if ans[0] == "ok":
            self.handshaked = True
            return
        if ans[0] == "block":
            raise sslerror("want_read")
        raw._raise(ans, "do_handshake")

    def send(self, data, flags=0):
        raw = self.raw
        raw._check_open()
        raw.calls["send"] += 1
        if raw.state != "connected":
            raise oserror(_errno.ENOTCONN)
        if raw.shut_wr:
            raise oserror(_errno.EPIPE)
        data = bytes(data)
        cands = raw._send_cands(data) + [SSL(k) for k in raw.menu.send_ssl]
        ans = raw.net.decide(raw, "send", cands)
        if ans[0] == "block":
            raise sslerror("want_write")
        if ans[0] != "n":
            raw._raise(ans, "send")
        k = ans[1]
        chunk = data[:k]
        raw.sent.extend(chunk)
        p = raw.peer
        if p is None or p.closed or p.shut_rd:
            raw.lost.extend(chunk)
        else:
            p.inbox.extend(chunk)
        return k

    write = send

    def recv(self, n=1024, flags=0):
        raw = self.raw
        raw._check_open()
        raw.calls["recv"] += 1
        if raw.state != "connected":
            raise oserror(_errno.ENOTCONN)
        cands = raw._recv_cands(n) + [SSL(k) for k in raw.menu.recv_ssl]
        ans = raw.net.decide(raw, "recv", cands)
        if ans[0] == "eof":
            return b""
        if ans[0] == "block":
            raise sslerror("want_read")
        if ans[0] != "n":
            raw._raise(ans, "recv")
        k = ans[1]
        chunk = bytes(raw.inbox[:k])
        del raw.inbox[:k]
        raw.recvd.extend(chunk)
        return chunk

    read = recv

    def unwrap(self):
        return self.raw

    def getpeercert(self, binary_form=False):
        return b"" if binary_form else {}

    def cipher(self):
        return ("FAKE", "TLSv1.3", 256)

    def version(self):
        return "TLSv1.3"

    def pending(self):
        return 0


# ----------------------------------------------------------------------------- module double

class FakeSocketModule:
    """Looks like the `socket` module: every constant, `error`, `gaierror`, `getaddrinfo` ... is
    the real one; `socket()` returns a FakeSocket of the current `.net`."""

    TARGETS = ("ioflo.aio.tcp.clienting", "ioflo.aio.tcp.serving", "ioflo.aio.udp.udping")

    def __init__(self, net=None):
        self.net = net
        self._saved = []

    def __getattr__(self, name):
        return getattr(_socket, name)

    def socket(self, family=_socket.AF_INET, type=_socket.SOCK_STREAM, proto=0, fileno=None):
        if self.net is None:
            raise core.BrokenCheck("FakeSocketModule.socket() without a FakeNet (set fsm.net)")
        return self.net.socket(family, type, proto)

    def install(self, modules=None):
        """Replace the `socket` global of the ioflo modules that create sockets (call after
        core.use_repo()).  Idempotent.  Returns self."""
        import importlib
        if self._saved:
            return self
        for m in (modules or self.TARGETS):
            mod = importlib.import_module(m) if isinstance(m, str) else m
            if getattr(mod, "socket", None) is not _socket:
                raise core.BrokenCheck("%s.socket is not the socket module" % mod.__name__)
            self._saved.append((mod, mod.socket))
            mod.socket = self
        return self

    def uninstall(self):
        for mod, real in self._saved:
            mod.socket = real
        self._saved = []

    def __enter__(self):
        return self.install()

    def __exit__(self, *a):
        self.uninstall()


# ----------------------------------------------------------------------------- clock

class Clock:
    """Manual store clock with ioflo's Store/Stamper stamp protocol (.stamp, change, advance).
    StoreTimer only reads `.stamp`; pass as `store=` to Client / Server / Incomer / Patron /
    Valet or as `stamper=` to stacks."""

    def __init__(self, stamp=0.0):
        self.stamp = float(stamp)

    def change(self, stamp):
        self.stamp = float(stamp)

    changeStamp = change

    def advance(self, delta):
        self.stamp += float(delta)

    advanceStamp = advance


def clock(stamp=0.0):
    return Clock(stamp)


# ----------------------------------------------------------------------------- errno tables

LOSS_ERRNOS = tuple(sorted((_errno.ECONNRESET, _errno.ENETRESET, _errno.ENETUNREACH,
                            _errno.EHOSTUNREACH, _errno.ENETDOWN, _errno.EHOSTDOWN,
                            _errno.ETIMEDOUT, _errno.ECONNREFUSED)))
BLOCK_ERRNOS = tuple(sorted({_errno.EAGAIN, _errno.EWOULDBLOCK}))
ALL_ERRNOS = tuple(sorted(_errno.errorcode))


# ----------------------------------------------------------------------------- self test

def selftest():
    """Tiny self-test of the doubles themselves (no ioflo).  Raises BrokenCheck on failure."""
    def ok(cond, what):
        if not cond:
            raise core.BrokenCheck("net.selftest: " + what)

    fn = FakeNet()
    ls = fn.listen(("", 7000))
    ok(ls.getsockname() == (ANY, 7000), "listener name")
    c = fn.socket()
    try:
        c.getpeername()
        ok(False, "getpeername before connect")
    except OSError as ex:
        ok(ex.args[0] == _errno.ENOTCONN and isinstance(ex, OSError), "ENOTCONN")
    ok(c.connect_ex((LOOP, 7000)) == 0, "connect")
    ok(c.connect_ex((LOOP, 7000)) == _errno.EISCONN, "EISCONN")
    s, ca = ls.accept()
    ok(ca == c.getsockname() and s.getpeername() == ca and s.getsockname() == (LOOP, 7000), "names")
    try:
        ls.accept()
        ok(False, "accept on empty backlog")
    except BlockingIOError as ex:
        ok(ex.args[0] in BLOCK_ERRNOS, "EWOULDBLOCK")
    ok(c.send(b"abc") == 3 and s.recv(2) == b"ab" and s.recv(10) == b"c", "pipe")
    try:
        s.recv(10)
        ok(False, "recv on empty pipe")
    except BlockingIOError:
        pass
    c.close()
    ok(s.recv(10) == b"", "eof after close")
    ok(fn.socket().connect_ex((LOOP, 7001)) == _errno.ECONNREFUSED, "refused")

    # chooser-driven: all answers of one 2-byte send and the matching recv
    seen = set()

    def run(ch):
        fn = FakeNet(chooser=ch, menu=Menu(send_partial=True, send_block=True, recv_split=True))
        a, b = fn.pair()
        try:
            k = a.send(b"xy")
        except BlockingIOError:
            k = "block"
        got = b""
        try:
            got = b.recv(8)
        except BlockingIOError:
            got = "block"
        seen.add((k, got))
        # replay through a script gives the same log
        fn2 = FakeNet(policy=ScriptPolicy(fn.answers()), menu=fn.menu)
        a2, b2 = fn2.pair()
        try:
            a2.send(b"xy")
        except BlockingIOError:
            pass
        try:
            b2.recv(8)
        except BlockingIOError:
            pass
        ok(fn2.log == fn.log, "script replay differs")
    st = core.dfs(run)
    ok(seen == {(2, b"xy"), (2, b"x"), (1, b"x"), (0, "block"), ("block", "block")},
       "send/recv answer space %r" % sorted(map(repr, seen)))
    ok(st["executions"] == 5, "dfs executions %r" % st)

    # forced errno and tls doubles
    fn = FakeNet()
    a, b = fn.pair()
    a.force("send", ERR(_errno.ECONNRESET))
    try:
        a.send(b"q")
        ok(False, "forced error")
    except ConnectionResetError as ex:
        ok(ex.args[0] == ex.errno == _errno.ECONNRESET, "errno args")
    b.stick("shutdown", ERR(_errno.ENOTCONN))
    for _ in range(2):
        try:
            b.shutdown(_socket.SHUT_RDWR)
            ok(False, "sticky shutdown fault")
        except OSError as ex:
            ok(ex.args[0] == _errno.ENOTCONN and not isinstance(ex, ConnectionError) and not b.shut_wr, "ENOTCONN")
    ctx = FakeSslContext(fn)
    t = ctx.wrap_socket(a, server_side=False, do_handshake_on_connect=False)
    t.menu = Menu(send_block=True)
    t.force("do_handshake", SSL("want_read"), SSL("eof"), OK)
    for cls, num in ((_ssl.SSLWantReadError, _ssl.SSL_ERROR_WANT_READ), (_ssl.SSLEOFError, _ssl.SSL_ERROR_EOF)):
        try:
            t.do_handshake()
            ok(False, "handshake should raise")
        except _ssl.SSLError as ex:
            ok(type(ex) is cls and ex.args[0] == num == ex.errno, "ssl error %r" % ex)
    t.do_handshake()
    ok(t.handshaked, "handshake")
    t.force("send", BLOCK)
    try:
        t.send(b"z")
        ok(False, "tls block")
    except _ssl.SSLWantWriteError as ex:
        ok(ex.args[0] == _ssl.SSL_ERROR_WANT_WRITE, "want write")
    ok(t.send(b"z") == 1 and b.recv(4) == b"z" and t.getpeername() == b.getsockname(), "tls pipe")
    # datagrams
    u1, u2 = fn.socket(type=_socket.SOCK_DGRAM), fn.socket(type=_socket.SOCK_DGRAM)
    u1.bind(("", 9001))
    u2.bind((LOOP, 9002))
    ok(u1.sendto(b"hi", (LOOP, 9002)) == 2 and u2.recvfrom(100) == (b"hi", (LOOP, 9001)), "dgram")
    # module double
    fsm = FakeSocketModule(fn)
    ok(fsm.AF_INET == _socket.AF_INET and fsm.error is OSError and
       isinstance(fsm.socket(fsm.AF_INET, fsm.SOCK_STREAM), FakeSocket), "module double")
    ck = clock()
    ck.advance(0.5)
    ok(ck.stamp == 0.5, "clock")
    return True


if __name__ == "__main__":
    selftest()
    print("net selftest ok")
